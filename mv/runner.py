"""Generic check runner: build, explore, triage against known findings, confirm,
write replays + evidence, exit code.

exit 0  property held on everything explored (possibly KNOWN-FINDING lines)
exit 1  VIOLATION property=<id> replay=<path>
exit 2  machinery failure (build, protocol, non-reproducible failure): no verdict
"""
import collections
import hashlib
import importlib
import json
import os
import subprocess
import sys
import time

from . import findings as F
from .pool import VERIF, MVDRV, SHIM, Driver, run_cases

EVID = os.path.join(VERIF, "evidence")
REPLAYS = os.path.join(VERIF, "replays")


def log(*a):
    print(*a, file=sys.stderr, flush=True)


def build():
    """Rebuild driver (against /repo's working tree), shim."""
    os.makedirs(os.path.join(VERIF, ".build"), exist_ok=True)
    shim_src = os.path.join(VERIF, "shim", "hashseed.c")
    if (not os.path.exists(SHIM)) or os.path.getmtime(SHIM) < os.path.getmtime(shim_src):
        r = subprocess.run(["gcc", "-O2", "-shared", "-fPIC", "-o", SHIM, shim_src, "-ldl"],
                           stdout=subprocess.PIPE, stderr=subprocess.STDOUT, text=True)
        if r.returncode != 0:
            log(r.stdout)
            return False
    env = dict(os.environ, CARGO_TARGET_DIR=os.path.join(VERIF, ".target"), CARGO_NET_OFFLINE="true")
    t0 = time.time()
    r = subprocess.run(["cargo", "build", "--release", "--offline", "--quiet"], cwd=os.path.join(VERIF, "driver"),
                       env=env, stdout=subprocess.PIPE, stderr=subprocess.STDOUT, text=True)
    if r.returncode != 0:
        log("BUILD FAILED (driver against /repo working tree):")
        log(r.stdout[-6000:])
        return False
    log("build ok (%.1fs)" % (time.time() - t0))
    return os.path.exists(MVDRV)


def build_repo_binary():
    """The real `mamba` CLI binary from /repo's working tree (C13)."""
    env = dict(os.environ, CARGO_TARGET_DIR=os.path.join(VERIF, ".target", "repo"), CARGO_NET_OFFLINE="true")
    r = subprocess.run(["cargo", "build", "--release", "--offline", "--quiet", "--bin", "mamba"], cwd="/repo",
                       env=env, stdout=subprocess.PIPE, stderr=subprocess.STDOUT, text=True)
    if r.returncode != 0:
        log("BUILD FAILED (mamba binary):")
        log(r.stdout[-6000:])
        return None
    return os.path.join(VERIF, ".target", "repo", "release", "mamba")


def case_key(case):
    return hashlib.sha1(json.dumps(case, sort_keys=True, default=str).encode()).hexdigest()[:16]


def write_replay(prop, case, failure):
    d = os.path.join(REPLAYS, prop)
    os.makedirs(d, exist_ok=True)
    key = hashlib.sha1(json.dumps([case, failure.get("family"), failure.get("kind")], sort_keys=True, default=str).encode()).hexdigest()[:12]
    path = os.path.join(d, key + ".json")
    with open(path, "w") as f:
        json.dump({"property": prop, "case": case, "failure": failure,
                   "replay_cmd": "./check %s --replay %s" % (prop, path)}, f, indent=1, default=str)
    return path


def same_failure(f1, f2):
    return f1.get("family") == f2.get("family") and f1.get("kind") == f2.get("kind")


def confirm(mod, case, failure):
    """Re-run the case alone in a fresh driver; the same failure must show again."""
    drv = Driver()
    try:
        res = mod.evaluate(case, drv)
    finally:
        drv.stop()
    return any(same_failure(failure, f) for f in res.get("fail", []))


def replay(prop, path):
    mod = importlib.import_module("mv.props." + prop.lower())
    data = json.load(open(path))
    case, failure = data["case"], data["failure"]
    if hasattr(mod, "replay"):
        fails = mod.replay(case)
    else:
        drv = Driver()
        try:
            fails = mod.evaluate(case, drv).get("fail", [])
        finally:
            drv.stop()
    hit = [f for f in fails if same_failure(failure, f)]
    if hit:
        print("REPLAY FAIL property=%s family=%s kind=%s" % (prop, failure.get("family"), failure.get("kind")))
        print(json.dumps(hit[0], indent=1, default=str)[:4000])
        return 1
    print("REPLAY PASS property=%s (the recorded failure does not occur on the current tree)" % prop)
    return 0


def run_property(prop, tier, seed):
    t0 = time.time()
    mod = importlib.import_module("mv.props." + prop.lower())
    if not build():
        return 2
    if getattr(mod, "NEEDS_BINARY", False):
        b = build_repo_binary()
        if b is None:
            return 2
    known = F.load()
    import shutil
    shutil.rmtree(os.path.join(REPLAYS, prop), ignore_errors=True)
    agg = {
        "evaluations": 0, "nontrivial_keys": set(), "stats": collections.Counter(), "outcomes": collections.Counter(),
        "failures": [], "machinery": [], "samples": [], "extra": {},
    }

    def absorb(res):
        agg["evaluations"] += res.get("evals", 1)
        if res.get("nontrivial"):
            agg["nontrivial_keys"].add(res.get("key") or res.get("cid"))
        for k, v in (res.get("stats") or {}).items():
            agg["stats"][k] += v
        if res.get("outcome") is not None:
            agg["outcomes"][res["outcome"]] += 1
        if res.get("machinery"):
            agg["machinery"].append((res.get("cid"), res["machinery"]))
        for f in res.get("fail", []):
            own = f.pop("case", None)
            agg["failures"].append((own if own is not None else res.get("case"), f))
        if res.get("ncrashes"):
            agg["stats"]["pipeline-crashes-in-this-space"] += res["ncrashes"]
            agg.setdefault("crash_examples", [])
            if len(agg["crash_examples"]) < 5:
                agg["crash_examples"].extend(res["crashes"][:2])
        if res.get("sample") is not None and len(agg["samples"]) < 6:
            agg["samples"].append(res["sample"])

    # --- exploration on the pool
    if hasattr(mod, "cases"):
        gen = mod.cases(tier, seed)
        last = [time.time()]

        def progress(n):
            if time.time() - last[0] > 10:
                last[0] = time.time()
                log("  ... %d cases, %d failures so far (%.0fs)" % (n, len(agg["failures"]), time.time() - t0))

        for res in run_cases("mv.props." + prop.lower(), gen, chunk=getattr(mod, "CHUNK", 32),
                             shim=getattr(mod, "SHIM", True), progress=progress):
            absorb(res)
    # --- direct parts (Rust-side sweeps, BFS, ...)
    if hasattr(mod, "direct"):
        for res in mod.direct(tier, seed, agg):
            absorb(res)

    if agg["machinery"]:
        log("MACHINERY ERROR in %d cases, e.g. %s" % (len(agg["machinery"]), agg["machinery"][0]))
        write_evidence(mod, prop, tier, seed, agg, t0, [], {}, machinery=True)
        return 2

    if os.environ.get("VERIF_DEBUG"):
        os.makedirs(os.path.join(VERIF, ".work"), exist_ok=True)
        with open(os.path.join(VERIF, ".work", prop + ".failures.jsonl"), "w") as fh:
            for case, f in agg["failures"]:
                fh.write(json.dumps({"case": case, "failure": f}, default=str) + "\n")

    # --- triage
    explained = collections.OrderedDict()
    violations = []
    for case, f in agg["failures"]:
        e = F.match(known, prop, f, case)
        if e is not None:
            explained.setdefault(e["id"], {"entry": e, "n": 0, "example": None})
            explained[e["id"]]["n"] += 1
            if explained[e["id"]]["example"] is None:
                explained[e["id"]]["example"] = (case, f)
        else:
            violations.append((case, f))

    # --- confirm violations in isolation (a few per (family, kind) cluster)
    confirmed = []
    clusters = collections.OrderedDict()
    for case, f in violations:
        clusters.setdefault((f.get("family"), f.get("kind")), []).append((case, f))
    budget = 24
    for key, items in clusters.items():
        for case, f in items[:2]:
            if budget <= 0:
                break
            budget -= 1
            ok = True
            if hasattr(mod, "evaluate") and case is not None and not f.get("no_confirm"):
                try:
                    ok = confirm(mod, case, f)
                except Exception as e:  # noqa
                    log("confirmation crashed: %r" % e)
                    ok = False
            if not ok and f.get("kind") in TIMING_KINDS:
                # a wall-clock observation (growth rate, deadline) made while 16 workers compete for the machine and NOT seen again when
                # the case runs alone is load noise, neither a verdict nor a broken harness: the cluster is dropped and counted
                log("timing observation not confirmed in isolation, dropped: %s" % (key,))
                agg["stats"]["%s.timing-observation-not-confirmed" % prop.lower()] = agg["stats"].get("%s.timing-observation-not-confirmed" % prop.lower(), 0) + len(items)
                items = None
                break
            if not ok:
                log("MACHINERY ERROR: failure not reproducible in isolation: %s %s" % (key, json.dumps(case, default=str)[:500]))
                write_evidence(mod, prop, tier, seed, agg, t0, [], {}, machinery=True)
                return 2
        if items is not None:
            confirmed.append((key, items))

    for eid, info in explained.items():
        case, f = info["example"]
        path = write_replay(prop, case, f)
        print("KNOWN-FINDING: property=%s %s %s (%d cases, e.g. %s)" % (prop, eid, info["entry"]["what"], info["n"], path))
    nviol = 0
    for key, items in confirmed:
        nviol += len(items)
        for case, f in items[:3]:
            path = write_replay(prop, case, f)
            print("VIOLATION property=%s replay=%s" % (prop, path))
            print("  family=%s kind=%s cases_in_cluster=%d tags=%s" % (f.get("family"), f.get("kind"), len(items), f.get("tags")))
            print("  detail: %s" % str(f.get("detail"))[:600])
    if agg.get("crash_examples") and prop != "C03":
        print("NOTE: the pipeline crashed on %d inputs of this check's space (a C03 matter; C03's pool includes this space). e.g. %s at %s on %r" % (
            agg["stats"]["pipeline-crashes-in-this-space"], agg["crash_examples"][0][0], agg["crash_examples"][0][1], agg["crash_examples"][0][2][:120]))
    write_evidence(mod, prop, tier, seed, agg, t0, confirmed, explained)
    log("%s %s: evaluations=%d nontrivial=%d failures=%d explained=%d violations=%d wall=%.1fs" % (
        prop, tier, agg["evaluations"], len(agg["nontrivial_keys"]), len(agg["failures"]),
        sum(i["n"] for i in explained.values()), nviol, time.time() - t0))
    return 1 if confirmed else 0


def write_evidence(mod, prop, tier, seed, agg, t0, confirmed, explained, machinery=False):
    os.makedirs(EVID, exist_ok=True)
    cov = {
        "evaluations": int(agg["evaluations"]),
        "distinct_nontrivial": len(agg["nontrivial_keys"]),
        "rule": getattr(mod, "RULE", ""),
        "samples": agg["samples"][:6] or ["<none>"],
        "distinct_outcomes": len(agg["outcomes"]),
        "outcomes": dict(agg["outcomes"].most_common(12)),
        "stats": dict(sorted(agg["stats"].items())),
        "failures_total": len(agg["failures"]),
        "known_findings_hit": {k: v["n"] for k, v in explained.items()},
        "violation_clusters": [{"family": k[0], "kind": k[1], "cases": len(v)} for k, v in confirmed],
    }
    if agg.get("crash_examples"):
        cov["pipeline_crash_examples"] = [list(c) for c in agg["crash_examples"][:5]]
    cov.update(agg.get("extra", {}))
    if hasattr(mod, "coverage"):
        cov.update(mod.coverage(tier, agg))
    ev = {
        "property_id": prop,
        "tier": tier,
        "seed": int(seed),
        "level": getattr(mod, "LEVEL", "exploration"),
        "coverage": cov,
        "assumptions": list(getattr(mod, "ASSUMPTIONS", [])),
        "wall_s": round(time.time() - t0, 2),
        "violations": sum(len(v) for _, v in confirmed),
    }
    if machinery:
        ev["coverage"]["machinery_error"] = True
    tmp = os.path.join(EVID, prop + ".json.tmp")
    with open(tmp, "w") as f:
        json.dump(ev, f, indent=1, default=str)
    os.replace(tmp, os.path.join(EVID, prop + ".json"))


TIMING_KINDS = ("superpolynomial-growth", "timeout")


def main(argv):
    if len(argv) < 2:
        print("usage: check <Cxx> quick|thorough | check <Cxx> --replay <file>")
        return 2
    prop = argv[0].upper()
    if argv[1] == "--replay":
        if not build():
            return 2
        return replay(prop, argv[2])
    tier = argv[1] if argv[1] in ("quick", "thorough") else os.environ.get("VERIF_TIER", "quick")
    seed = int(os.environ.get("VERIF_SEED", "0") or 0)
    return run_property(prop, tier, seed)


if __name__ == "__main__":
    sys.exit(main(sys.argv[1:]))
