"""Shared evaluation for the 'verdict by construction' properties (C05-C09)."""
import re


def first_message(errs):
    if not errs:
        return ""
    return errs[0].split("\n", 1)[0][:160]


def evaluate_verdict(case, drv, annotate=False):
    res = {"fail": [], "nontrivial": True, "stats": {}, "key": case["src"], "evals": 1}
    r = drv.transpile1(case["src"], annotate=annotate)
    fam = case["family"]
    v = r["v"]
    res["outcome"] = "%s/%s" % (case["expect"], v)
    res["stats"]["%s.%s.%s" % (fam.split(".")[0], case["expect"], v)] = 1
    res["result"] = r
    if v not in ("ok", "err"):
        res["fail"].append({"family": fam, "kind": "crash-" + v, "detail": str(r)[:300], "tags": case["tags"]})
        return res
    if case["expect"] == "ok" and v == "err":
        msg = first_message(r["errs"])
        res["fail"].append({"family": fam, "kind": "over-rejection", "detail": "conforming program rejected: " + msg,
                            "tags": case["tags"] + ["msg:" + re.sub(r"[^A-Za-z ]", "", msg)[:40].strip()]})
    elif case["expect"] == "err" and v == "ok":
        res["fail"].append({"family": fam, "kind": "accepted-nonconforming", "detail": "non-conforming program accepted (fault on line %s)" % case.get("fault_line"),
                            "tags": case["tags"], "observed": r["out"][0][:600]})
    return res
