//! Minimal JSON output helpers (the driver has no dependency besides mamba).
use std::fmt::Write;

pub fn esc(s: &str) -> String {
    let mut o = String::with_capacity(s.len() + 2);
    o.push('"');
    for c in s.chars() {
        match c {
            '"' => o.push_str("\\\""),
            '\\' => o.push_str("\\\\"),
            '\n' => o.push_str("\\n"),
            '\r' => o.push_str("\\r"),
            '\t' => o.push_str("\\t"),
            c if (c as u32) < 0x20 => {
                write!(o, "\\u{:04x}", c as u32).unwrap();
            }
            c => o.push(c),
        }
    }
    o.push('"');
    o
}

pub fn arr<I: IntoIterator<Item = String>>(items: I) -> String {
    let mut o = String::from("[");
    let mut first = true;
    for it in items {
        if !first {
            o.push(',');
        }
        first = false;
        o.push_str(&it);
    }
    o.push(']');
    o
}

pub fn str_arr(items: &[String]) -> String {
    arr(items.iter().map(|s| esc(s)))
}
