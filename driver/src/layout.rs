//! C14 (parser level): ALL well-formed line skeletons up to N code lines x every
//! single trivia placement; the parse result (positions erased) and the parse
//! verdict must equal those of the trivia-free skeleton.
use mamba::parse::ast::AST;

use crate::json::esc;

fn ind(n: usize) -> String {
    "    ".repeat(n)
}

/// all blocks (lists of lines) at `level` using exactly/at most `budget` lines; non-empty
fn blocks(level: usize, budget: usize, top: bool) -> Vec<Vec<String>> {
    let mut out: Vec<Vec<String>> = vec![];
    if budget == 0 {
        return out;
    }
    for first in statements(level, budget, top) {
        let used = first.len();
        out.push(first.clone());
        if budget > used {
            for rest in blocks(level, budget - used, top) {
                let mut v = first.clone();
                v.extend(rest);
                out.push(v);
            }
        }
    }
    out
}

/// all single statements (with their nested blocks) at `level` using at most `budget` lines
fn statements(level: usize, budget: usize, top: bool) -> Vec<Vec<String>> {
    let i = ind(level);
    let mut out: Vec<Vec<String>> = vec![vec![format!("{i}print(1)")], vec![format!("{i}def v := 2")]];
    if budget >= 2 {
        for (head, _) in [("if c then", 0), ("while c do", 0), ("for i in l do", 0)] {
            for b in blocks(level + 1, budget - 1, false) {
                let mut v = vec![format!("{i}{head}")];
                v.extend(b);
                out.push(v);
            }
        }
        if top {
            for b in blocks(level + 1, budget - 1, false) {
                let mut v = vec![format!("{i}def f() =>")];
                v.extend(b);
                out.push(v);
            }
            // class with members
            for members in class_members(level + 1, budget - 1) {
                let mut v = vec![format!("{i}class C")];
                v.extend(members);
                out.push(v);
            }
        }
        // one-line arms
        for n_arms in 1..=2usize.min(budget - 1) {
            let mut v = vec![format!("{i}match m")];
            for a in 0..n_arms {
                v.push(format!("{}{} => print({})", ind(level + 1), if a + 1 == n_arms { "_".to_string() } else { a.to_string() }, a));
            }
            out.push(v.clone());
            let mut h = vec![format!("{i}r() handle")];
            for a in 0..n_arms {
                h.push(format!("{}e{}: E{} => print({})", ind(level + 1), a, a, a));
            }
            out.push(h);
        }
    }
    if budget >= 3 {
        // if / else
        for tb in blocks(level + 1, budget - 2, false) {
            let left = budget - 2 - tb.len() + 1;
            if left == 0 {
                continue;
            }
            for eb in blocks(level + 1, left.min(budget - 1 - tb.len()), false) {
                if 2 + tb.len() + eb.len() > budget {
                    continue;
                }
                let mut v = vec![format!("{i}if c then")];
                v.extend(tb.clone());
                v.push(format!("{i}else"));
                v.extend(eb);
                out.push(v);
            }
        }
        // block arms
        for b in blocks(level + 2, budget - 2, false) {
            let mut v = vec![format!("{i}match m"), format!("{}1 =>", ind(level + 1))];
            v.extend(b.clone());
            out.push(v.clone());
            if v.len() < budget {
                let mut w = v.clone();
                w.push(format!("{}_ => print(9)", ind(level + 1)));
                out.push(w);
            }
            let mut h = vec![format!("{i}r() handle"), format!("{}e: E =>", ind(level + 1))];
            h.extend(b);
            out.push(h);
        }
    }
    out
}

fn class_members(level: usize, budget: usize) -> Vec<Vec<String>> {
    let i = ind(level);
    let mut out = vec![];
    if budget == 0 {
        return out;
    }
    let singles: Vec<Vec<String>> = {
        let mut s = vec![vec![format!("{i}def a: Int := 1")], vec![format!("{i}def m(self) => print(1)")]];
        if budget >= 2 {
            for b in blocks(level + 1, (budget - 1).min(2), false) {
                let mut v = vec![format!("{i}def n(self) =>")];
                v.extend(b);
                s.push(v);
            }
        }
        s
    };
    for a in &singles {
        out.push(a.clone());
        for b in &singles {
            if a.len() + b.len() <= budget {
                let mut v = a.clone();
                v.extend(b.clone());
                out.push(v);
            }
        }
    }
    out
}

/// Debug form of the AST with every `pos: Position { .. }` removed.
pub fn shape(ast: &AST) -> String {
    let s = format!("{ast:?}");
    let needle = "pos: Position { start: CaretPos {";
    let mut out = String::with_capacity(s.len());
    let mut rest = s.as_str();
    while let Some(i) = rest.find(needle) {
        out.push_str(&rest[..i]);
        // skip to the end of `Position { start: CaretPos {..}, end: CaretPos {..} }`
        let tail = &rest[i..];
        let mut depth = 0i32;
        let mut end = tail.len();
        let mut seen_open = false;
        for (k, c) in tail.char_indices() {
            if c == '{' {
                depth += 1;
                seen_open = true;
            } else if c == '}' {
                depth -= 1;
                if seen_open && depth == 0 {
                    end = k + 1;
                    break;
                }
            }
        }
        rest = &tail[end..];
    }
    out.push_str(rest);
    out
}

fn verdict(src: &str) -> Result<String, String> {
    match src.parse::<AST>() {
        Ok(ast) => Ok(shape(&ast)),
        Err(e) => Err(e.msg.clone()),
    }
}

pub fn run(args: &[String]) {
    crate::serve::install_panic_hook();
    let maxlines: usize = args.first().and_then(|s| s.parse().ok()).unwrap_or(4);
    let shard: u64 = args.get(1).and_then(|s| s.parse().ok()).unwrap_or(0);
    let of: u64 = args.get(2).and_then(|s| s.parse().ok()).unwrap_or(1).max(1);
    let mut skeletons: Vec<Vec<String>> = blocks(0, maxlines, true);
    skeletons.sort();
    skeletons.dedup();
    let (mut nskel, mut nvar, mut nfail, mut rejected_base) = (0u64, 0u64, 0u64, 0u64);
    for (si, lines) in skeletons.iter().enumerate() {
        if si as u64 % of != shard {
            continue;
        }
        nskel += 1;
        let base_src = lines.join("\n") + "\n";
        let base = std::panic::catch_unwind(|| verdict(&base_src));
        let base = match base {
            Ok(b) => b,
            Err(_) => {
                println!("F {{\"input\":{},\"kind\":\"parser-panic\",\"detail\":\"base\",\"base\":{}}}", esc(&base_src), esc(&base_src));
                nfail += 1;
                continue;
            }
        };
        if base.is_err() {
            rejected_base += 1;
        }
        let indent_of = |l: &String| l.len() - l.trim_start().len();
        let mut variants: Vec<(String, String)> = vec![];
        for gap in 0..=lines.len() {
            let mut ins: Vec<(String, String)> = vec![("empty".into(), String::new())];
            for k in [2usize, 4, 8, 12] {
                ins.push((format!("spaces{k}"), " ".repeat(k)));
            }
            if gap > 0 {
                ins.push(("comment-like-prev".into(), format!("{}# n", " ".repeat(indent_of(&lines[gap - 1])))));
            }
            if gap < lines.len() {
                ins.push(("comment-like-next".into(), format!("{}# n", " ".repeat(indent_of(&lines[gap])))));
            }
            for (name, text) in ins {
                let mut v = lines.clone();
                v.insert(gap, text);
                variants.push((format!("{name}@gap{gap}"), v.join("\n") + "\n"));
                // two trivia lines in the same gap
                if name == "empty" || name.starts_with("comment") {
                    let mut w = lines.clone();
                    w.insert(gap, v[gap].clone());
                    w.insert(gap, v[gap].clone());
                    variants.push((format!("{name}x2@gap{gap}"), w.join("\n") + "\n"));
                }
            }
        }
        for li in 0..lines.len() {
            let mut v = lines.clone();
            v[li] = format!("{}  # n", v[li]);
            variants.push((format!("trailing-comment@{li}"), v.join("\n") + "\n"));
            let mut v = lines.clone();
            v[li] = format!("{}   ", v[li]);
            variants.push((format!("trailing-spaces@{li}"), v.join("\n") + "\n"));
        }
        variants.push(("no-final-newline".into(), lines.join("\n")));
        variants.push(("crlf".into(), lines.join("\r\n") + "\r\n"));
        variants.push(("crlf-no-final-newline".into(), lines.join("\r\n")));
        variants.push(("two-final-newlines".into(), lines.join("\n") + "\n\n"));
        variants.push(("leading-blank".into(), format!("\n{}", base_src)));
        for (name, src) in variants {
            nvar += 1;
            let got = std::panic::catch_unwind(|| verdict(&src));
            let bad = match (&base, &got) {
                (_, Err(_)) => Some("parser-panic".to_string()),
                (Ok(b), Ok(Ok(g))) if b == g => None,
                (Err(_), Ok(Err(_))) => None,
                (Ok(_), Ok(Ok(_))) => Some("parse-tree-changes".to_string()),
                (Ok(_), Ok(Err(e))) => Some(format!("verdict-changes: {e}")),
                (Err(_), Ok(Ok(_))) => Some("verdict-changes: base rejected, variant accepted".to_string()),
            };
            if let Some(kind) = bad {
                nfail += 1;
                let (k, d) = match kind.split_once(": ") {
                    Some((k, d)) => (k.to_string(), d.to_string()),
                    None => (kind.clone(), String::new()),
                };
                println!(
                    "F {{\"input\":{},\"kind\":{},\"detail\":{},\"base\":{},\"trivia\":{}}}",
                    esc(&src),
                    esc(&k),
                    esc(&format!("{name}: {d}")),
                    esc(&base_src),
                    esc(&name)
                );
            }
        }
    }
    println!(
        "S {{\"skeletons\":{},\"skeletons_total\":{},\"variants\":{},\"failing\":{},\"rejected_bases\":{}}}",
        nskel,
        skeletons.len(),
        nvar,
        nfail,
        rejected_base
    );
}
