"""The repository's sample files (mutation seeds / metamorphic pool)."""
import glob
import os

ROOT = "/repo/tests/resource"


def files():
    out = []
    for p in sorted(glob.glob(os.path.join(ROOT, "**", "*.mamba"), recursive=True)):
        try:
            out.append((os.path.relpath(p, ROOT), open(p, encoding="utf-8").read()))
        except Exception:
            pass
    return out


def valid():
    return [(p, s) for p, s in files() if p.startswith("valid/")]


def invalid():
    return [(p, s) for p, s in files() if p.startswith("invalid/")]
