#!/usr/bin/env python3
"""register_seed.py <seed-id> <mutant_dir> <patch_file> <property> <needs> <detected_by> : copy a confirmed seeded change into /verif/seeded/<id>/"""
import json, os, shutil, sys
sid, mdir, patch, prop, needs, detected = sys.argv[1:7]
d = os.path.join("/verif/seeded", sid)
os.makedirs(d, exist_ok=True)
shutil.copy(patch, os.path.join(d, "patch.diff"))
for f in os.listdir(mdir):
    if f.startswith("demo") or f == "README.md":
        shutil.copy(os.path.join(mdir, f), os.path.join(d, f))
meta = {
    "id": sid, "property": prop, "needs_to_manifest": needs,
    "origin": "independent sub-agent given only the property text and a scratch worktree" + ("; patch re-based onto the tree after the fix: commits" if "ported" in patch else ""),
    "confirmed": ["cargo build --offline (scratch worktree)", "tools/baseline_check.py <worktree>: baseline_missing=0",
                  "demo exits 1 with the change, 0 on the clean tree"],
    "detected_by": detected,
    "ran": "tools/try_mutant.sh seeded/%s/patch.diff %s quick" % (sid, prop),
}
json.dump(meta, open(os.path.join(d, "meta.json"), "w"), indent=1)
print("registered", d)
