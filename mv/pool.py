"""Worker pool and the handle on the Rust driver (`mvdrv serve`).

Every worker process owns one persistent driver child, started with the
getrandom shim pre-loaded so that hash iteration order is a function of the
seed in the request.  A driver that dies (stack overflow => SIGABRT, allocation
failure) or exceeds its deadline is reported as verdict `abort` / `timeout` for
the request that was running, and restarted.
"""
import json
import multiprocessing as mp
import os
import select
import signal
import subprocess
import sys
import time

VERIF = os.path.dirname(os.path.dirname(os.path.abspath(__file__)))
MVDRV = os.path.join(VERIF, ".target", "release", "mvdrv")
SHIM = os.path.join(VERIF, ".build", "hashseed.so")
NONE = b"\0"


class DriverDied(Exception):
    pass


def _blob(b):
    if isinstance(b, str):
        b = b.encode("utf-8")
    return str(len(b)).encode() + b"\n" + b


class Driver:
    def __init__(self, shim=True):
        self.shim = shim
        self.p = None
        self.buf = b""
        self.nreq = 0
        self.restarts = 0
        self.crashes = []

    def start(self):
        env = dict(os.environ)
        if self.shim:
            env["LD_PRELOAD"] = SHIM
        env["RUST_BACKTRACE"] = "0"
        self.p = subprocess.Popen([MVDRV, "serve"], stdin=subprocess.PIPE, stdout=subprocess.PIPE,
                                  stderr=subprocess.DEVNULL, env=env, bufsize=0)
        self.buf = b""

    def stop(self):
        if self.p is not None:
            try:
                self.p.kill()
                self.p.wait()
            except Exception:
                pass
            self.p = None

    def _readline(self, deadline):
        while b"\n" not in self.buf:
            left = deadline - time.time()
            if left <= 0:
                return None
            r, _, _ = select.select([self.p.stdout], [], [], left)
            if not r:
                return None
            chunk = os.read(self.p.stdout.fileno(), 1 << 20)
            if not chunk:
                raise DriverDied()
            self.buf += chunk
        line, self.buf = self.buf.split(b"\n", 1)
        return line

    def request(self, header, blobs, timeout=20.0):
        """Send one request; returns the decoded JSON answer, or a dict with
        v=abort (driver died; `signal` set) / v=timeout."""
        if self.p is None or self.p.poll() is not None:
            self.start()
        self.nreq += 1
        msg = header.encode() + b"\n" + b"".join(_blob(b) for b in blobs)
        t0 = time.time()
        try:
            self.p.stdin.write(msg)
            self.p.stdin.flush()
        except (BrokenPipeError, OSError):
            self.stop()
            self.restarts += 1
            return {"v": "abort", "signal": "EPIPE", "us": 0}
        deadline = t0 + timeout
        try:
            while True:
                line = self._readline(deadline)
                if line is None:
                    self.stop()
                    self.restarts += 1
                    return {"v": "timeout", "us": int((time.time() - t0) * 1e6)}
                if line.startswith(b"R "):
                    return json.loads(line[2:].decode("utf-8"))
                # "B <id>" lines are progress markers
        except DriverDied:
            rc = self.p.wait()
            self.p = None
            self.restarts += 1
            sig = ""
            if rc is not None and rc < 0:
                try:
                    sig = signal.Signals(-rc).name
                except Exception:
                    sig = str(rc)
            return {"v": "abort", "signal": sig or str(rc), "us": int((time.time() - t0) * 1e6)}

    # ------------------------------------------------------------------
    @staticmethod
    def _files_blobs(files):
        blobs = []
        for path, src in files:
            blobs.append(NONE if path is None else path)
            blobs.append(src)
        return blobs

    def transpile(self, files, annotate=False, seed=0, srcdir="/proj/src", timeout=20.0):
        """files: list of (path or None, source). Paths are given absolute under srcdir
        so that the pipeline reports them relative to it (as the CLI does)."""
        hdr = "T %d %d %d %d" % (self.nreq, 1 if annotate else 0, seed, len(files))
        r = self.request(hdr, [srcdir] + self._files_blobs(files), timeout)
        if r.get("v") in ("panic", "abort", "timeout"):
            # never silent: every check reports pipeline crashes met in its space (they are C03's verdict)
            self.crashes.append((r["v"], str(r.get("loc") or r.get("signal") or ""), files[0][1][:400]))
        return r

    def transpile1(self, src, annotate=False, seed=0, name="f.mamba", timeout=20.0):
        return self.transpile([("/proj/src/" + name, src)], annotate, seed, "/proj/src", timeout)

    def history(self, reqs, seed=0, timeout=60.0):
        """reqs: list of (files, annotate); all run back to back on one thread."""
        blobs = []
        for files, annotate in reqs:
            blobs.append("%d %d" % (1 if annotate else 0, len(files)))
            blobs.append("/proj/src")
            blobs += self._files_blobs(files)
        return self.request("H %d %d %d" % (self.nreq, seed, len(reqs)), blobs, timeout)

    def threads(self, files, annotate, nthreads, seed=0, timeout=60.0):
        hdr = "M %d %d %d %d %d" % (self.nreq, 1 if annotate else 0, seed, len(files), nthreads)
        return self.request(hdr, ["/proj/src"] + self._files_blobs(files), timeout)

    def project(self, directory, src=None, target=None, annotate=False, seed=0, timeout=60.0):
        hdr = "P %d %d %d" % (self.nreq, 1 if annotate else 0, seed)
        return self.request(hdr, [directory, NONE if src is None else src, NONE if target is None else target], timeout)

    def lex(self, text, timeout=10.0):
        return self.request("L %d" % self.nreq, [text], timeout)

    def lexcheck(self, text, timeout=10.0):
        return self.request("X %d" % self.nreq, [text], timeout)

    def parse(self, text, timeout=10.0):
        return self.request("A %d" % self.nreq, [text], timeout)

    def status(self):
        return self.request("S %d" % self.nreq, [], 10.0)


# ----------------------------------------------------------------------
# process pool

_worker_state = {}


def _worker_init(modname, shim):
    import importlib
    signal.signal(signal.SIGINT, signal.SIG_IGN)
    _worker_state["mod"] = importlib.import_module(modname)
    _worker_state["drv"] = Driver(shim=shim)
    sys.setrecursionlimit(3000)


def _worker_run(chunk):
    mod = _worker_state["mod"]
    drv = _worker_state["drv"]
    out = []
    for case in chunk:
        try:
            res = mod.evaluate(case, drv)
        except Exception as e:  # machinery error inside an oracle: never a verdict
            import traceback
            res = {"machinery": "%s: %s\n%s" % (type(e).__name__, e, traceback.format_exc()[-1500:])}
        res["case"] = case if (res.get("fail") or res.get("machinery")) else None
        res["cid"] = case.get("id")
        if drv.crashes:
            res["crashes"] = drv.crashes[:5]
            res["ncrashes"] = len(drv.crashes)
            drv.crashes = []
        out.append(res)
    return out


def chunks(it, n):
    buf = []
    for x in it:
        buf.append(x)
        if len(buf) >= n:
            yield buf
            buf = []
    if buf:
        yield buf


def run_cases(modname, cases, nproc=None, chunk=32, shim=True, progress=None):
    """Evaluate every case with `modname.evaluate(case, driver)` on a process pool.
    Yields result dicts as they complete."""
    nproc = nproc or int(os.environ.get("VERIF_JOBS", "0")) or min(16, os.cpu_count() or 4)
    ctx = mp.get_context("fork")
    with ctx.Pool(nproc, initializer=_worker_init, initargs=(modname, shim)) as pool:
        n = 0
        for res in pool.imap_unordered(_worker_run, chunks(cases, chunk)):
            for r in res:
                n += 1
                yield r
            if progress and n % 2000 < chunk:
                progress(n)


def run_shards(argv_list, nproc=None, shim=False, timeout=3600):
    """Run several `mvdrv <args>` sweeps in parallel.
    Returns a list of (argv, stdout lines, returncode, stderr tail)."""
    from concurrent.futures import ThreadPoolExecutor
    nproc = nproc or min(16, os.cpu_count() or 4)
    env = dict(os.environ)
    if shim:
        env["LD_PRELOAD"] = SHIM
    env["RUST_BACKTRACE"] = "0"

    def one(a):
        try:
            p = subprocess.run([MVDRV] + [str(x) for x in a], stdout=subprocess.PIPE, stderr=subprocess.PIPE,
                               env=env, timeout=timeout)
            return (a, p.stdout.decode("utf-8", "replace").splitlines(), p.returncode,
                    p.stderr.decode("utf-8", "replace")[-2000:])
        except subprocess.TimeoutExpired:
            return (a, [], -999, "timeout")

    with ThreadPoolExecutor(nproc) as ex:
        return list(ex.map(one, argv_list))
