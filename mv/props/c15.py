"""C15 - renaming user identifiers commutes with transpilation.

For every base program and every user-chosen identifier u of it, u is renamed
consistently to every name p of a pool (ordinary names and names that collide
with identifiers the generator emits or special-cases), for all p not already
used; the thorough tier also renames every pair of identifiers.  Oracle: same
verdict, and parse(out(rename(P))) == rename(parse(out(P))) as Python ASTs.
"""
import ast
import itertools
import re

from .. import gen_prog, mutate
from ..lang import to_mamba

ID = "C15"
LEVEL = "exploration"
CHUNK = 2
RULE = ("every (identifier, pool name) renaming of every base program (every injective pair of renamings in the thorough tier); one case = one base "
        "with all its renamings, both annotate settings; non-trivial = renaming of an accepted base whose outputs are compared; distinct by renamed text")
ASSUMPTIONS = ["documented special names stay fixed: keywords, self, __init__, print, operator names, the built-in type names of Mamba (Int, Str, List, Tuple, ...)",
               "class names are renamed to capitalised pool names only, other identifiers to lower-case pool names (the grammar distinguishes neither, but conventions keep the renamed program readable)"]

RESERVED = set("""from type class pure isa as import forward vararg fin def mod sqrt and or not is isnt isna in if then else match while for do continue break
return with raise handle when pass self None True False print _ Int Float Str Bool Complex List Set Dict Tuple Range Slice Any Exception Callable Collection Enum
__init__ undefined range str int float bool len abs min max sum input""".split())
LOWER_POOL = ["foo", "bar1", "q", "_t", "size", "init", "super", "math", "typing", "abstractmethod", "err", "other", "abc", "optional", "list", "dict", "object", "type_", "lambda_", "del_", "value"]
UPPER_POOL = ["Foo", "Optional", "Union", "NewType", "ABC", "Generic", "Math", "Object", "T", "R", "A", "B"]   # T, R, A, B: the placeholders of the generic stub classes


def identifiers(src):
    toks = mutate.tokenize(src)
    ids = []
    classes = set()
    prev = None
    for k, t in toks:
        if k == "id":
            if prev == "class" and t not in RESERVED:
                classes.add(t)
            if t not in RESERVED and t not in ids:
                ids.append(t)
            prev = t
        elif k not in ("sp",):
            prev = None
    # identifiers inside interpolations
    return ids, classes


def rename_src(src, mapping):
    out = []
    for k, t in mutate.tokenize(src):
        if k == "id" and t in mapping:
            out.append(mapping[t])
        elif k == "str" and "{" in t:
            def sub(m):
                return re.sub(r"[A-Za-z_][A-Za-z0-9_]*", lambda w: mapping.get(w.group(), w.group()), m.group())
            out.append(re.sub(r"\{[^{}]*\}", sub, t))
        else:
            out.append(t)
    return "".join(out)


class _Ren(ast.NodeTransformer):
    def __init__(self, mapping):
        self.m = mapping

    def visit_Name(self, node):
        node.id = self.m.get(node.id, node.id)
        return node

    def visit_Attribute(self, node):
        self.generic_visit(node)
        node.attr = self.m.get(node.attr, node.attr)
        return node

    def visit_arg(self, node):
        self.generic_visit(node)
        node.arg = self.m.get(node.arg, node.arg)
        return node

    def visit_FunctionDef(self, node):
        self.generic_visit(node)
        node.name = self.m.get(node.name, node.name)
        return node

    def visit_ClassDef(self, node):
        self.generic_visit(node)
        node.name = self.m.get(node.name, node.name)
        return node

    def visit_keyword(self, node):
        self.generic_visit(node)
        if node.arg:
            node.arg = self.m.get(node.arg, node.arg)
        return node

    def visit_ExceptHandler(self, node):
        self.generic_visit(node)
        if node.name:
            node.name = self.m.get(node.name, node.name)
        return node

    def visit_MatchAs(self, node):
        self.generic_visit(node)
        if node.name:
            node.name = self.m.get(node.name, node.name)
        return node


def renamed_dump(py, mapping):
    tree = ast.parse(py)
    tree = _Ren(mapping).visit(tree)
    return ast.dump(tree)


def base_programs(tier):
    quick = tier == "quick"
    progs = []
    for fam in "OHFTAK":
        fam_cases = list(gen_prog.FAMILIES[fam]("quick"))
        step = {"O": 1, "H": 9, "F": 14, "T": 3, "A": 30, "K": 40}[fam] if quick else {"O": 1, "H": 3, "F": 4, "T": 1, "A": 8, "K": 10}[fam]
        progs += fam_cases[::step]
    extra = [
        'def size() -> Int => 3\nprint(size())\n',
        'class Shape\n    def size(self) -> Int => 3\ndef s := Shape()\nprint(s.size())\n',
        'def compute(x: Int, y: Int := 2) -> Int => x * y\nprint(compute(2))\nprint(compute(2, 5))\n',
        'def root(x: Float) -> Float => sqrt x\nprint(root(4.0))\n',
        'def maybe(x: Int?) -> Int => x ? 0\nprint(maybe(None))\n',
        'type Pos: Int when\n    self > 0\ndef p: Pos := 3\n',
        'type Named\n    def name(self) -> Str\nclass Thing: Named\n    def name(self) -> Str => "t"\ndef th := Thing()\nprint(th.name())\n',
        'class Base\n    def ident(self) -> Int => 1\ntype Shape: Base\n    def area(self) -> Int\nclass Sq: Shape\n    def ident(self) -> Int => 2\n    def area(self) -> Int => 4\ndef sq := Sq()\nprint(sq.area())\n',
        'def setup() -> Int => 1\nclass Machine(def level: Int)\n    def prepare(self) -> Int => self.level\ndef mach := Machine(2)\nprint(setup())\nprint(mach.prepare())\n',
        'def pair() -> (Int, Str) => (1, "a")\ndef (num, txt) := pair()\nprint(num)\nprint(txt)\n',
        'def total := 0\nfor item in [1, 2, 3] do\n    total += item\nprint("sum {total}")\n',
        'class Counter(def count: Int)\n    def bump(self, by: Int := 1) =>\n        self.count := self.count + by\ndef cnt := Counter(0)\ncnt.bump()\ncnt.bump(2)\nprint(cnt.count)\n',
    ]
    extra += [
        # `with` consumes its resource; names defined more than once live under shadowing offsets
        'def show(x: Int) => print("v {x}")\ndef res := 10\nwith res as other do\n    show(other)\nwith res as again: Int do\n    show(again)\nwith res do\n    show(res)\n',
        'def scale(n: Int, num: Int) -> Int => n * num\ndef report(n: Int, num: Int) =>\n    with n as m: Int do\n        print(m + num)\nreport(2, 3)\nprint(scale(2, 3))\n',
        'def count: Int := 1\ndef count: Int := 2\ndef c: Int := 10\nwith c as d: Int do\n    print(count + d)\n',
        'def val: Int := 1\ndef c := True\nif c then\n    def val: Int := 2\n    print(val)\ndef v: Int := val + 1\nprint(v)\nfor va in 0 .. 2 do\n    print(va + val)\n',
    ]
    extra += [
        # user classes as arguments of the built-in generic classes (whose stubs have placeholders of their own), values taken out again
        'class Item(def cost: Int)\n    def get(self) -> Int => self.cost\ndef d: Dict[Str, Item] := {"a" => Item(1), "b" => Item(2)}\ndef e := d["a"]\nprint(e.get())\ndef e2: Item := d["b"]\nprint(e2.get())\n',
        'class Item(def cost: Int)\n    def get(self) -> Int => self.cost\nclass Key(def k: Int)\ndef l: List[Item] := [Item(1), Item(2)]\ndef f: Item := l[0]\nprint(f.get())\ndef p: (Key, Item) := (Key(1), Item(3))\ndef (pk, pi) := p\nprint(pi.get())\nprint(pk.k)\n',
        'class Item(def cost: Int)\n    def get(self) -> Int => self.cost\ndef s: Set[Item] := {Item(1)}\nfor it in s do\n    print(it.get())\ndef dd: Dict[Int, Item] := {1 => Item(4)}\ndef g: Item := dd[1]\nprint(g.get())\n',
    ]
    for case in progs:
        yield case["id"], to_mamba(case["prog"])
    for i, src in enumerate(extra):
        yield "X%d" % i, src


def cases(tier, seed):
    n = 0
    for bid, src in base_programs(tier):
        ids, _ = identifiers(src)
        for u in ids:
            n += 1
            yield {"id": "c15-%d" % n, "family": "c15." + bid[0], "src": src, "only": u, "pairs": False, "tags": ["base:" + bid, "id:" + u],
                   "derived": tier != "quick" or bid.startswith("X")}
        if tier != "quick":
            n += 1
            yield {"id": "c15-%d" % n, "family": "c15." + bid[0], "src": src, "only": None, "pairs": True, "tags": ["base:" + bid, "pairs"]}


def renamings(src, pairs, derived=True):
    ids, classes = identifiers(src)
    used = set(ids) | RESERVED
    single = []
    for u in ids:
        pool = UPPER_POOL if u in classes else LOWER_POOL
        for p in pool:
            if p not in used:
                single.append({u: p})
    # names RELATED to another identifier of the same program: a proper prefix of it, it with a suffix, it doubled, it minus its
    # last character - an injective renaming may create (or destroy) such relations, the output may not depend on them
    for u in (ids if derived else []):
        derived = []
        for w in ids:
            if w == u or (w in classes) != (u in classes):
                continue
            derived += [w[:1], w[:2], w[:-1], w + "1", w + "_", w + w, w + "s"]
        seen = set()
        for p in derived:
            if p and p not in used and p not in seen and re.fullmatch(r"[A-Za-z_][A-Za-z0-9_]*", p) and p != "_":
                seen.add(p)
                single.append({u: p})
    for m in single:
        yield m
    if pairs:
        for (u1, u2) in itertools.combinations(ids[:5], 2):
            for p1, p2 in itertools.permutations((UPPER_POOL if u1 in classes else LOWER_POOL)[:6] + (UPPER_POOL if u2 in classes else LOWER_POOL)[4:9], 2):
                if p1 in used or p2 in used or p1 == p2:
                    continue
                if (p1 in UPPER_POOL) != (u1 in classes) or (p2 in UPPER_POOL) != (u2 in classes):
                    continue
                yield {u1: p1, u2: p2}


def evaluate(case, drv):
    res = {"fail": [], "nontrivial": False, "stats": {}, "key": case["src"], "evals": 0}
    fam = case["family"]
    base = {}
    for ann in (False, True):
        base[ann] = drv.transpile1(case["src"], annotate=ann)
        res["evals"] += 1
    if case.get("single"):
        todo = [case["mapping"]]
    else:
        todo = [m for m in renamings(case["src"], case.get("pairs"), case.get("derived", True)) if (case.get("only") is None and len(m) == 2) or (case.get("only") is not None and list(m) == [case["only"]])]
    for mapping in todo:
        rsrc = rename_src(case["src"], mapping)
        desc = ",".join("%s->%s" % kv for kv in mapping.items())
        tags = case["tags"] + ["to:" + p for p in mapping.values()]
        vcase = {"id": case["id"] + ":" + desc, "family": fam, "src": case["src"], "mapping": mapping, "single": True, "tags": tags}
        for ann in (False, True):
            b = base[ann]
            r = drv.transpile1(rsrc, annotate=ann)
            res["evals"] += 1
            res["stats"]["c15.renamings"] = res["stats"].get("c15.renamings", 0) + 1
            if r["v"] != b["v"]:
                msg = (r.get("errs") or b.get("errs") or [""])[0].split("\n")[0][:140]
                res["fail"].append({"family": fam, "kind": "verdict-changes", "detail": "%s: base %s, renamed %s (%s)" % (desc, b["v"], r["v"], msg), "tags": tags + ["annotate:%s" % ann], "case": vcase})
                break
            if b["v"] != "ok":
                continue
            res["nontrivial"] = True
            res["stats"]["c15.compared"] = res["stats"].get("c15.compared", 0) + 1
            try:
                want = renamed_dump(b["out"][0], mapping)
                got = ast.dump(ast.parse(r["out"][0]))
            except SyntaxError:
                res["stats"]["c15.unparsable-output"] = res["stats"].get("c15.unparsable-output", 0) + 1
                continue
            if want != got:
                # first differing line of the unparsed trees, for the report
                a = ast.unparse(_Ren(mapping).visit(ast.parse(b["out"][0]))).splitlines()
                c = ast.unparse(ast.parse(r["out"][0])).splitlines()
                diff = next(("%r vs %r" % (x, y) for x, y in zip(a, c) if x != y), "length %d vs %d" % (len(a), len(c)))
                res["fail"].append({"family": fam, "kind": "output-not-renamed-output", "detail": "%s: %s" % (desc, diff), "tags": tags + ["annotate:%s" % ann], "case": vcase})
                break
    if case["id"].endswith("3"):
        res["sample"] = {"id": case["id"], "base": case["src"][:300]}
    return res


def coverage(tier, agg):
    return {"distinct_nontrivial": int(agg["stats"].get("c15.compared", 0)),
            "explanation": "distinct_nontrivial = (renaming, annotate) pairs of accepted bases whose outputs were compared as ASTs"}
