"""C13 - projects: all-or-nothing, mirrored layout, order-independent, non-interfering.

Explicit-state BFS with a reference model.  State = the output directory tree
(path -> bytes); reference model of it = a dict.  Operations = run the REAL
`mamba` binary on a project (a set of files from a small pool, at most one of
them faulty) into the SAME output directory.  BFS over operation sequences to
depth 2 (3), states deduplicated on the canonical tree; every transition is an
execution of the real binary, so model and implementation are compared on every
edge.  Through the API, every permutation of every project's file list.
"""
import hashlib
import itertools
import json
import os
import re
import shutil
import subprocess
import tempfile

from ..pool import VERIF, SHIM, run_cases

ID = "C13"
LEVEL = "model_checking"
CHUNK = 8
NEEDS_BINARY = True
BINARY = os.path.join(VERIF, ".target", "repo", "release", "mamba")
RULE = ("states = distinct output trees; transitions = executions of the real binary on (tree, project, annotate); invariants evaluated in every state; "
        "non-trivial = every transition (distinct (pre-state, operation) pairs)")
ASSUMPTIONS = ["the expected verdict is by construction: a project is accepted iff it has no faulty file and every file's cross-file dependency is present",
               "hash seed pinned through the shim (order/seed dependence is C12's)",
               "expected bytes of a file = the bytes the same (project, annotate) gives into an empty directory / through the API; independence of history, permutation and unrelated files is the invariant"]

A_SHORT = 'class Shape(def side: Int)\n    def area(self) -> Int => self.side * self.side\ndef unit() -> Shape => Shape(1)\n'
# the long version also needs support imports (math; typing with -a): they must stay in its own output
A_LONG = A_SHORT + 'def root(x: Float) -> Float => sqrt x\ndef maybe: Int? := None\n' + 'def twice(n: Int) -> Int => n * 2\ndef thrice(n: Int) -> Int => n * 3\nclass Extra(def label: Str)\n    def show(self) -> Str => self.label + "!"\n' + "".join('def pad%d() -> Int => %d\n' % (i, i) for i in range(12))
B = 'def big: Shape := Shape(3)\nprint(big.area())\nprint(unit().area())\n'
C = 'def count := 0\nfor i in 0 .. 3 do\n    count += i\nprint(count)\n'
D = 'class Fresh(def tag: Str)\ndef fresh_fun() -> Int => 42\nprint(fresh_fun())\n'
# a second version of d.mamba whose output has the SAME length (an "unchanged" shortcut keyed on size or
# time stamps would keep the stale file)
D_ALT = D.replace("42", "43")
POOL = {"a.mamba": None, "sub/b.mamba": B, "sub/deep/c.mamba": C, "d.mamba": D}
DEPENDS = {"sub/b.mamba": "a.mamba"}
FAULTS = {
    "lexical": lambda s: s + "def bad := 1 ! 2\n",
    "syntax": lambda s: s + "def (:= 3\n",
    "type": lambda s: s + 'def wrong: Int := "text"\n',
}


def projects(tier):
    """(name, files dict, expected ok, faulty paths)"""
    quick = tier == "quick"
    names = list(POOL)
    out = []
    for k in range(1, len(names) + 1):
        for sub in itertools.combinations(names, k):
            avers = (("short", A_SHORT), ("long", A_LONG)) if "a.mamba" in sub else (("-", None),)
            dvers = (("", D), ("d2", D_ALT)) if "d.mamba" in sub and (not quick or len(sub) <= 2) else (("", D),)
            for aver, dver in itertools.product(avers, dvers):
                files = {p: (aver[1] if p == "a.mamba" else dver[1] if p == "d.mamba" else POOL[p]) for p in sub}
                deps_ok = all(DEPENDS[p] in sub for p in sub if p in DEPENDS)
                label = "+".join(p.split("/")[-1][0] for p in sub) + (":" + aver[0] if aver[0] != "-" else "") + (":" + dver[0] if dver[0] else "")
                out.append((label, files, deps_ok, [] if deps_ok else [p for p in sub if p in DEPENDS and DEPENDS[p] not in sub]))
                if not deps_ok:
                    continue
                for fp in sub:
                    for fk, fn in FAULTS.items():
                        if quick and (fk != "type" and len(sub) > 2) :
                            continue
                        f2 = dict(files)
                        f2[fp] = fn(files[fp])
                        out.append((label + "!" + fk + "@" + fp.split("/")[-1], f2, False, [fp]))
    # a module file NEXT TO a directory of the same name (sub.mamba beside sub/): the order in which paths are listed, sorted and
    # compared (byte-wise on the string vs component-wise) differs exactly there; the file's content is d.mamba's
    clash = []
    for label, files, ok, faulty in out:
        if "d.mamba" in files and any(p.startswith("sub/") for p in files) and not faulty and ":d2" not in label:
            f2 = {("sub.mamba" if p == "d.mamba" else p): t for p, t in files.items()}
            clash.append((label + ":clash", f2, ok, ["sub.mamba" if p == "d.mamba" else p for p in faulty]))
    return out + clash


def tree_key(tree):
    return hashlib.sha1(json.dumps(sorted(tree.items())).encode()).hexdigest()[:16]


def read_tree(root):
    out = {}
    if not os.path.isdir(root):
        return out
    for dp, dn, fn in os.walk(root):
        for f in fn:
            p = os.path.join(dp, f)
            with open(p, "rb") as fh:
                out[os.path.relpath(p, root)] = fh.read().decode("utf-8", "replace")
        if not dn and not fn and os.path.abspath(dp) != os.path.abspath(root):
            out[os.path.relpath(dp, root) + "/"] = ""
    return out


def write_tree(root, tree):
    for p, text in tree.items():
        if p.endswith("/"):
            os.makedirs(os.path.join(root, p), exist_ok=True)
            continue
        full = os.path.join(root, p)
        os.makedirs(os.path.dirname(full), exist_ok=True)
        with open(full, "wb") as fh:
            fh.write(text.encode("utf-8"))


def run_binary(pre_tree, files, annotate, layout):
    """one transition; returns (exit code, stderr, new output tree, everything else created)"""
    tmp = tempfile.mkdtemp(prefix="mvc13-", dir=os.path.join(VERIF, ".work"))
    try:
        src_dir, out_dir = ("src", "target") if layout == "default" else ("code/in", "out/py")
        write_tree(os.path.join(tmp, src_dir), files)
        if pre_tree:
            write_tree(os.path.join(tmp, out_dir), pre_tree)
        before_other = set(read_tree(tmp)) - {os.path.join(out_dir, p) for p in pre_tree}
        args = [BINARY] + ([] if layout == "default" else ["-i", src_dir, "-o", out_dir]) + (["-a"] if annotate else [])
        env = dict(os.environ, LD_PRELOAD=SHIM, VERIF_HASH_SEED="0", NO_COLOR="1")
        p = subprocess.run(args, cwd=tmp, stdout=subprocess.PIPE, stderr=subprocess.PIPE, env=env, timeout=120)
        after = read_tree(tmp)
        out_tree = {}
        for k, v in after.items():
            if k.startswith(out_dir + os.sep) and k.rstrip("/") != out_dir:
                rel = os.path.relpath(k.rstrip("/"), out_dir) + ("/" if k.endswith("/") else "")
                out_tree[rel] = v
        other = {k for k in after if not k.startswith(out_dir + os.sep) and not k.startswith(src_dir + os.sep) and k.rstrip("/") not in (out_dir, src_dir)}
        return p.returncode, p.stderr.decode("utf-8", "replace"), out_tree, sorted(other - before_other)
    finally:
        shutil.rmtree(tmp, ignore_errors=True)


ANSI = re.compile(r"\x1b\[[0-9;]*m")


def evaluate(case, drv):
    res = {"fail": [], "nontrivial": True, "stats": {}, "key": case["id"], "evals": 1}
    fam = case["family"]
    tags = case["tags"]
    if case["mode"] == "api":
        # every permutation of the file list through mamba_to_python
        files = case["files"]
        paths = sorted(files)
        ref = None
        n = 0
        for perm in itertools.permutations(paths):
            r = drv.transpile([("/proj/src/" + p, files[p]) for p in perm], annotate=case["annotate"])
            n += 1
            if r["v"] != ("ok" if case["expect_ok"] else "err"):
                res["fail"].append({"family": fam, "kind": "api-verdict", "detail": "order %s: %s, expected %s; %s" % (list(perm), r["v"], case["expect_ok"], str(r.get("errs", ""))[:200]), "tags": tags})
                break
            if r["v"] == "ok":
                by_path = dict(zip(perm, r["out"]))
                if len(r["out"]) != len(perm):
                    res["fail"].append({"family": fam, "kind": "api-output-count", "detail": "%d outputs for %d files" % (len(r["out"]), len(perm)), "tags": tags})
                    break
                if ref is None:
                    ref = by_path
                elif by_path != ref:
                    diff = [p for p in paths if by_path[p] != ref[p]]
                    res["fail"].append({"family": fam, "kind": "order-dependent-output", "detail": "order %s changes the output of %s" % (list(perm), diff), "tags": tags})
                    break
            else:
                # every diagnostic header names a faulty file and only those
                heads = set(re.findall(r"──→ ([^\s:\\\\]+)", "\n".join(r["errs"])))
                want = {"src/" + p for p in case["faulty"]}
                if not heads or not heads <= want:
                    res["fail"].append({"family": fam, "kind": "api-diagnostic-names-wrong-file", "detail": "order %s: diagnostics name %s, faulty files are %s" % (list(perm), sorted(heads), sorted(want)), "tags": tags})
                    break
        res["evals"] = n
        res["outs"] = ref
        res["outcome"] = "api"
        return res
    pre = case["pre"]
    rc, err, out_tree, other = run_binary(pre, case["files"], case["annotate"], case["layout"])
    err = ANSI.sub("", err)
    res["state"] = out_tree
    res["outcome"] = "ok" if rc == 0 else "fail"
    expect_ok = case["expect_ok"]
    if other:
        res["fail"].append({"family": fam, "kind": "files-created-outside-output-dir", "detail": str(other[:5]), "tags": tags})
    if (rc == 0) != expect_ok:
        res["fail"].append({"family": fam, "kind": "verdict", "detail": "exit %d, expected %s; %s" % (rc, "success" if expect_ok else "failure", err[-300:]), "tags": tags})
        return res
    if rc == 0:
        want_paths = {re.sub(r"\.mamba$", ".py", p) for p in case["files"]}
        new = {p for p in out_tree if not p.endswith("/")}
        old = {p for p in pre if not p.endswith("/")}
        if not want_paths <= new:
            res["fail"].append({"family": fam, "kind": "output-file-missing", "detail": "missing %s" % sorted(want_paths - new), "tags": tags})
        extra = new - want_paths - old
        if extra:
            res["fail"].append({"family": fam, "kind": "unexpected-file-created", "detail": str(sorted(extra)), "tags": tags})
        for p in old - want_paths:
            if out_tree.get(p) != pre[p]:
                res["fail"].append({"family": fam, "kind": "unrelated-output-file-modified", "detail": p, "tags": tags})
        # bytes must be those of the same project into an empty directory
        for p in sorted(want_paths & new):
            exp = case.get("expected_bytes", {}).get(p)
            if exp is not None and out_tree[p] != exp:
                kind = "stale-bytes-survive" if (p in pre and len(pre[p]) > len(exp)) else "history-dependent-bytes"
                res["fail"].append({"family": fam, "kind": kind, "detail": "%s differs from the bytes the same project gives into an empty directory (len %d vs %d)" % (p, len(out_tree[p]), len(exp)), "tags": tags})
    else:
        if out_tree != pre:
            changed = sorted(set(out_tree.items()) ^ set(pre.items()))[:4]
            res["fail"].append({"family": fam, "kind": "failure-wrote-output", "detail": "output tree changed on a failing run: %s" % [c[0] for c in changed], "tags": tags})
        heads = set(re.findall(r"──→ ([^\s:\\\\]+)", err))
        src_dir = "src" if case["layout"] == "default" else "in"
        want = {src_dir + "/" + p for p in case["faulty"]}
        if not heads:
            res["fail"].append({"family": fam, "kind": "failure-without-diagnostic", "detail": err[-200:], "tags": tags})
        elif not heads <= want:
            res["fail"].append({"family": fam, "kind": "diagnostic-names-wrong-file", "detail": "diagnostics name %s, faulty files are %s" % (sorted(heads), sorted(want)), "tags": tags})
    return res


def direct(tier, seed, agg):
    quick = tier == "quick"
    os.makedirs(os.path.join(VERIF, ".work"), exist_ok=True)
    projs = projects(tier)
    depth = 2 if quick else 3
    ops = []
    for name, files, ok, faulty in projs:
        for ann in ((False,) if quick and "!" in name else (False, True)):
            ops.append((name, files, ok, faulty, ann))
    agg["extra"]["operations"] = len(ops)
    # ---- API: all permutations of every project
    api_cases = []
    for i, (name, files, ok, faulty, ann) in enumerate(ops):
        if ann and "!" in name:
            continue
        api_cases.append({"id": "c13-api%d" % i, "family": "c13.api", "mode": "api", "files": files, "annotate": ann, "expect_ok": ok, "faulty": faulty, "tags": ["project:" + name, "annotate:%s" % ann]})
    api_out = {}
    for r in run_cases("mv.props.c13", api_cases, chunk=4):
        yield_r = dict(r)
        if r.get("outs") is not None:
            api_out[r["cid"]] = r["outs"]
        yield yield_r
    # file bytes must not depend on the presence of unrelated files (d.mamba, c.mamba): compare across projects
    by_file = {}
    for c in api_cases:
        outs = api_out.get(c["id"])
        if not outs:
            continue
        for p, text in outs.items():
            key = (p, c["files"][p], c["annotate"])
            if key in by_file and by_file[key][0] != text:
                yield {"fail": [{"family": "c13.api", "kind": "output-depends-on-other-files", "detail": "%s differs between project %s and %s" % (p, by_file[key][1], c["tags"][0]), "tags": c["tags"], "no_confirm": True}],
                       "case": c, "cid": c["id"], "evals": 0}
            else:
                by_file.setdefault(key, (text, c["tags"][0]))
    # ---- BFS over histories into one output directory
    layouts = ["default", "custom"]
    total_states, total_trans = 0, 0
    for layout in layouts:
        seen = {tree_key({}): {}}
        frontier = [({}, [])]
        empty_bytes = {}
        for level in range(1, (1 if quick and layout == "custom" else depth) + 1):
            level_cases = []
            for pre, hist in frontier:
                for name, files, ok, faulty, ann in ops:
                    if level >= 3 and ("!" in name and "type" not in name):
                        continue
                    exp = {re.sub(r"\.mamba$", ".py", p): t for p, t in api_out.get(api_id(ops, name, ann), {}).items()} if ok else {}
                    level_cases.append({"id": "c13-%s-L%d-%d" % (layout, level, len(level_cases)), "family": "c13.bfs", "mode": "run", "pre": pre, "files": files, "annotate": ann, "layout": layout,
                                        "expect_ok": ok, "faulty": faulty, "expected_bytes": exp, "history": hist + ["%s%s" % (name, "/a" if ann else "")],
                                        "tags": ["project:" + name, "annotate:%s" % ann, "layout:" + layout, "depth:%d" % level]})
            new_frontier = []
            for r in run_cases("mv.props.c13", level_cases, chunk=6):
                total_trans += 1
                st = r.pop("state", None)
                yield r
                if st is not None:
                    k = tree_key(st)
                    if k not in seen:
                        seen[k] = st
                        case = next(c for c in level_cases if c["id"] == r["cid"])
                        new_frontier.append((st, case["history"]))
            frontier = new_frontier
            if quick and level == 1:
                # keep the quick tier small: continue from the states that differ most (one per distinct file set, long and short a)
                keep, seen_sets = [], set()
                for st, hist in frontier:
                    sig = (tuple(sorted(st)), tuple(len(v) for _, v in sorted(st.items())), "43" in st.get("d.py", ""))
                    if sig not in seen_sets:
                        seen_sets.add(sig)
                        keep.append((st, hist))
                frontier = keep[:12]
        total_states += len(seen)
    agg["extra"]["states"] = total_states
    agg["extra"]["transitions"] = total_trans
    agg["extra"]["traces_validated_against_impl"] = total_trans
    agg["extra"]["bfs_depth"] = depth
    agg["samples"].append({"history": ["a+b:long", "a+b:short"], "meaning": "long version then short version of a.mamba into the same output directory"})
    agg["samples"].append({"project": "a+b+c+d:short!type@b.mamba", "meaning": "4 files, the type fault in sub/b.mamba"})


def api_id(ops, name, ann):
    for i, (n, files, ok, faulty, a) in enumerate(ops):
        if n == name and a == ann:
            return "c13-api%d" % i
    return None
