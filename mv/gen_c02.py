"""C02-specific finite families: literal shapes, vanishing bodies, match-arm orders, argument shapes."""
import itertools


def literal_shapes(tier):
    quick = tier == "quick"
    digs = "019"
    ints = ["".join(p) for n in (1, 2, 3) for p in itertools.product(digs, repeat=n)]
    nums = list(ints)
    for a in ["0", "1", "9", "01", "10", "00"]:
        for b in ["", "0", "5", "05", "50"]:
            nums.append(a + "." + b)
    for base in ["1", "0", "01", "1.5", "1.", "10"]:
        for exp in ["", "0", "2", "02", "10"]:
            nums.append(base + "E" + exp)
    # widths around the machine integer boundaries (u32: 10 digits, u64: 20, u128: 39), with and without leading
    # zeros: a literal must not be routed through a fixed-width integer
    for width in (9, 10, 11, 19, 20, 21, 38, 39, 40):
        for body in ("1" + "0" * (width - 1), "9" * width, "1" * width):
            for zeros in ("", "0", "000"):
                nums.append(zeros + body)
        nums.append("0" * width)
        nums.append("0" * width + "7")
        nums.append("1E" + "0" * width + "2")
        nums.append("0" * width + "1E2")
        nums.append("0" * width + ".5")
    n = 0
    for lit in nums:
        for ctx, src in (("init", "def x := %s\n" % lit), ("init-ann", "def x: Int := %s\n" % lit), ("arg", "print(%s)\n" % lit),
                         ("fstr", 'print("v{%s}")\n' % lit), ("operand", "def x := %s + 1\n" % lit), ("index", "def l := [1, 2]\nprint(l[%s])\n" % lit),
                         ("range", "for i in 0 .. %s do\n    print(i)\n" % lit), ("default", "def f(a: Int := %s) -> Int => a\n" % lit)):
            n += 1
            yield {"id": "lit-n%d" % n, "family": "c02.literal.number", "src": src, "tags": ["lit:number", "ctx:" + ctx, "lexeme:" + lit,
                                                                                              "lit:leading-zero" if (len(lit) > 1 and lit[0] == "0" and lit[1].isdigit()) else "lit:plain"]}
    alpha = ["a", " ", "'", '\\"', "{", "}", "\\", "\n", "{a}", "#"]
    maxlen = 3 if quick else 4
    for ln in range(0, maxlen + 1):
        for body in itertools.product(alpha, repeat=ln):
            s = "".join(body)
            for ctx, src in (("init", 'def a := 1\ndef x := "%s"\nprint(x)\n' % s), ("arg", 'def a := 1\nprint("%s")\n' % s)):
                if ln == maxlen and ctx == "arg" and not quick:
                    continue
                n += 1
                tags = ["lit:string", "ctx:" + ctx]
                if "\n" in s:
                    tags.append("str:newline")
                if "{" in s or "}" in s:
                    tags.append("str:brace")
                if "\\" in s:
                    tags.append("str:backslash")
                if "'" in s:
                    tags.append("str:squote")
                yield {"id": "lit-s%d" % n, "family": "c02.literal.string", "src": src, "tags": tags}
    # doc strings
    for doc in ["doc", "", "two\nlines", "with 'quote'", 'with \\"dq\\"', "brace {x}", "ends with backslash\\\\"]:
        for ctx, src in (("class", 'class C\n    """%s"""\n    def v: Int := 1\n' % doc), ("fun", 'def f() -> Int =>\n    """%s"""\n    1\n' % doc),
                         ("module", '"""%s"""\ndef v := 1\n' % doc), ("method", 'class C\n    def m(self) -> Int =>\n        """%s"""\n        1\n' % doc)):
            n += 1
            yield {"id": "lit-d%d" % n, "family": "c02.literal.docstring", "src": src, "tags": ["lit:docstring", "ctx:" + ctx]}


def vanishing_bodies(tier):
    """every block position x every body that may vanish from the output"""
    bodies = {
        "pass": ["pass"],
        "comment": ["# only a comment"],
        "docstring": ['"""only a doc string"""'],
        "comment+pass": ["# c", "pass"],
        "import": ["import math"],
        "typedef": ["type T2: Int when self > 0"],
        "pass-pass": ["pass", "pass"],
        "def-nothing": ["def z: Int? := None"],
    }
    n = 0
    for bname, lines in bodies.items():
        def blk(ind):
            return "".join(" " * ind + l + "\n" for l in lines)
        positions = {
            "function": "def f() =>\n" + blk(4) + "f()\n",
            "function-ret": "def f() -> Int =>\n" + blk(4) + "    1\nprint(f())\n",
            "method": "class C\n    def m(self) =>\n" + blk(8) + "def o := C()\no.m()\n",
            "class": "class C\n" + blk(4) + "def o := C()\n",
            "then": "def c := True\nif c then\n" + blk(4) + "print(1)\n",
            "then-else": "def c := True\nif c then\n" + blk(4) + "else\n    print(2)\nprint(1)\n",
            "else": "def c := True\nif c then\n    print(2)\nelse\n" + blk(4) + "print(1)\n",
            "while": "def k := 0\nwhile k < 0 do\n" + blk(4) + "print(1)\n",
            "for": "for i in 0 .. 2 do\n" + blk(4) + "print(1)\n",
            "match-arm": "def m := 1\nmatch m\n    1 =>\n" + blk(8) + "    _ =>\n        print(2)\nprint(1)\n",
            "handle-arm": "class E1(msg: Str): Exception(msg)\ndef r(n: Int) -> Int raise [E1] => n\nr(1) handle\n    e: E1 =>\n" + blk(8) + "print(1)\n",
            "nested": "def f() =>\n    if True then\n" + blk(8) + "f()\n",
            "init": "class C\n    def v: Int := 1\n    def __init__(self) =>\n" + blk(8) + "def o := C()\n",
        }
        for pname, src in positions.items():
            n += 1
            yield {"id": "van%d" % n, "family": "c02.vanishing", "src": src, "tags": ["body:" + bname, "pos:" + pname]}


def match_orders(tier):
    arms = {"lit1": "1 => print(\"one\")", "lit2": "2 => print(\"two\")", "wild": "_ => print(\"any\")", "capture": "n => print(\"cap\")",
            "str": "\"s\" => print(\"str\")", "tuple": "(1, 2) => print(\"tup\")"}
    n = 0
    for k in (1, 2, 3):
        for combo in itertools.permutations(["lit1", "lit2", "wild", "capture"], k):
            src = "def m := 1\nmatch m\n" + "".join("    " + arms[a] + "\n" for a in combo)
            n += 1
            tags = ["match", "arms:" + ",".join(combo)]
            if any(a in ("wild", "capture") for a in combo[:-1]):
                tags.append("match:irrefutable-not-last")
            yield {"id": "mo%d" % n, "family": "c02.match-order", "src": src, "tags": tags}
            n += 1
            yield {"id": "mo%d" % n, "family": "c02.match-order", "src": "def m := 1\ndef r: Str := match m\n" + "".join("    " + arms[a].replace('print(', '').replace(')', '') + "\n" for a in combo) + "print(r)\n",
                   "tags": tags + ["match:as-expr"]}


def arg_shapes(tier):
    n = 0
    kinds = [("plain", "%s: Int"), ("default", "%s: Int := 1"), ("vararg", "vararg %s: Int"), ("vararg-default", "vararg %s: Int := 1"), ("untyped-default", "%s := 1"),
             ("nullable", "%s: Int?"), ("nullable-default", "%s: Int? := None"), ("fin", "fin %s: Int")]
    names = ["a", "b", "c"]
    for k in (1, 2, 3):
        for combo in itertools.product(kinds, repeat=k):
            if k == 3 and tier == "quick" and len({c[0] for c in combo}) < 3:
                continue
            params = ", ".join(fmt % names[i] for i, (_, fmt) in enumerate(combo))
            tags = ["args:" + ",".join(c[0] for c in combo)]
            for ctx, src in (("fun", "def f(%s) => print(1)\n" % params), ("method", "class C\n    def m(self, %s) => print(1)\n" % params),
                             ("lambda-init", "def lf := \\%s => 1\n" % params), ("lambda-arg", "def ap(g: Int -> Int) -> Int => g(1)\nprint(ap(\\%s => 2))\n" % params),
                             ("lambda-in-function", "def mk() =>\n    def lf := \\%s => 1\n    print(3)\nmk()\n" % params)):
                n += 1
                yield {"id": "as%d" % n, "family": "c02.arg-shapes", "src": src, "tags": tags + ["ctx:" + ctx]}
    for params in ["def a: Int", "def a: Int, b: Int", "a: Int, def b: Int := 1", "def a: Int := 1, def b: Int", "vararg a: Int", "def a: Int, vararg b: Int", "def fin a: Int"]:
        n += 1
        yield {"id": "as%d" % n, "family": "c02.arg-shapes", "src": "class C(%s)\n" % params, "tags": ["args:class:" + params, "ctx:class"]}


def operator_definitions(tier):
    """every operator-like token as the NAME of a definition (method with one operand, method without, top-level function)"""
    from .mutate import OPS
    n = 0
    for tok in OPS + ["+ -", "<>", "==", "**", "%", "~", "&", "|"]:
        for ctx, src in (("method-binary", "class Od(def a: Int)\n    def %s(self, other: Od) -> Od => Od(self.a)\ndef o := Od(1)\n" % tok),
                         ("method-unary", "class Od(def a: Int)\n    def %s(self) -> Od => Od(self.a)\ndef o := Od(1)\n" % tok),
                         ("method-returning-bool", "class Od(def a: Int)\n    def %s(self, other: Od) -> Bool => True\ndef o := Od(1)\n" % tok),
                         ("function", "def %s(a: Int, b: Int) -> Int => a\n" % tok)):
            n += 1
            yield {"id": "opdef%d" % n, "family": "c02.operator-definitions", "src": src, "tags": ["opname:" + tok, "ctx:" + ctx]}


def all_families(tier):
    yield from operator_definitions(tier)
    yield from literal_shapes(tier)
    yield from vanishing_bodies(tier)
    yield from match_orders(tier)
    yield from arg_shapes(tier)
