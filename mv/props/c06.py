"""C06 - null safety: None and T? never flow into non-nullable positions.

positions x producers x T (reject), the dual set (accept), and the constructor
rule (every subset of paths on which each non-nullable field is assigned); all in
contexts of depth 1 (quick) / 2 (thorough).
"""
import itertools

from .. import ctxgen, ctorseq
from ..staticprop import evaluate_verdict

ID = "C06"
LEVEL = "exploration"
CHUNK = 32
RULE = ("complete product contexts x consuming positions x nullable producers x T (must be rejected), the dual accepting set, and all "
        "49 assignment-path combinations of two non-nullable fields in a constructor; expectation by construction; distinct by source text")
ASSUMPTIONS = ["T ranges over Int, Str, a user class and the tuple type (Int, Int); producers: None, a T? variable (holding None or a value), a T?-returning call, an if-expression with a None branch, a nullable field"]

VAL = {"(Int, Int)": "(1, 2)", "Int": "1", "Str": '"s"', "A": "A()", "B": "B()", "Float": "1.5"}
BASE = ["class A", "    def ma(self) -> Int => 1", "class B: A", "    def mb(self) -> Int => 2"]
# (type of the nullable value, non-nullable type of the consuming position)
PAIRS = [("Int", "Int"), ("Str", "Str"), ("A", "A"), ("Int", "Float"), ("B", "A")]


def producers(T):
    """(name, setup lines for the enclosing block, expression)"""
    v = VAL[T]
    return [
        ("none", [], "None"),
        ("nullable-var", ["def nv: %s? := None" % T], "nv"),
        ("nullable-var-holding-value", ["def nw: %s? := %s" % (T, v)], "nw"),
        ("nullable-call", [], "nf()"),
        ("if-with-none", ["def cn := True"], "(if cn then %s else None)" % v),
        ("nullable-field", ["def nho := NH()"], "nho.f"),
    ]


def prelude(T, P=None):
    P = P or T
    v = VAL[P]
    return BASE + ["def nf() -> %s? => None" % T, "class NH", "    def f: %s? := None" % T, "def pf(x: %s) -> Int => 1" % P, "class PM", "    def m(self, x: %s) -> Int => 1" % P,
                   "    def md(self, x: %s := %s) -> Int => 1" % (P, v), "def pfd(x: %s := %s) -> Int => 1" % (P, v),
                   "class PC(def x: %s)" % P, "class FG", "    def g: %s := %s" % (P, v), "def pn(x: %s?) -> Int => 1" % P]


def payloads(tier):
    out = []

    def add(kind, pre, body, ok, tags, fault=None):
        out.append({"kind": kind, "prelude": pre, "body": body, "expect": "ok" if ok else "err", "tags": tags, "fault": fault})

    for T0, P0 in PAIRS:
        if T0 == P0:
            continue
        # a nullable value of a strict subtype flowing into a non-nullable ancestor position
        pre = prelude(T0, P0)
        v = VAL[P0]
        for pname, setup, p in producers(T0):
            tg = ["T:" + T0, "into:" + P0, "producer:" + pname]
            n = len(setup)
            add("anc-init", pre, setup + ["def x: %s := %s" % (P0, p)], False, tg, n)
            add("anc-reassign", pre, setup + ["def x: %s := %s" % (P0, v), "x := %s" % p], False, tg, n + 1)
            add("anc-argument", pre, setup + ["def r: Int := pf(%s)" % p], False, tg, n)
            add("anc-method-argument", pre, setup + ["def pmo := PM()", "def r: Int := pmo.m(%s)" % p], False, tg, n + 1)
            add("anc-ctor-argument", pre, setup + ["def pco := PC(%s)" % p], False, tg, n)
            add("anc-return", pre + ["def rt() -> %s =>" % P0] + ctxgen.indent(setup + ["return %s" % p]), ["rt()"], False, tg, ("prelude", len(pre) + 1 + n))
            add("anc-dual-init-nullable", pre, setup + ["def x: %s? := %s" % (P0, p)], True, tg)
    for T in ("Int", "Str", "A", "(Int, Int)"):
        v = VAL[T]
        pre = prelude(T)
        for pname, setup, p in producers(T):
            tg = ["T:" + T, "producer:" + pname]
            n = len(setup)
            add("init", pre, setup + ["def x: %s := %s" % (T, p)], False, tg, n)
            # a parameter with a default value is not thereby nullable
            add("default-param-argument", pre, setup + ["def r: Int := pfd(%s)" % p], False, tg, n)
            add("default-param-method-argument", pre, setup + ["def pmo := PM()", "def r: Int := pmo.md(%s)" % p], False, tg, n + 1)
            add("reassign", pre, setup + ["def x: %s := %s" % (T, v), "x := %s" % p], False, tg, n + 1)
            add("field-assign", pre, setup + ["def fgo := FG()", "fgo.g := %s" % p], False, tg, n + 1)
            add("argument", pre, setup + ["def r: Int := pf(%s)" % p], False, tg, n)
            add("method-argument", pre, setup + ["def pmo := PM()", "def r: Int := pmo.m(%s)" % p], False, tg, n + 1)
            add("ctor-argument", pre, setup + ["def pco := PC(%s)" % p], False, tg, n)
            # return / implicit last: the setup lives inside the function
            add("return", pre + ["def rt() -> %s =>" % T] + ctxgen.indent(setup + ["return %s" % p]), ["rt()"], False, tg, ("prelude", len(pre) + 1 + n))
            add("implicit-last", pre + ["def rl() -> %s =>" % T] + ctxgen.indent(setup + [p]), ["rl()"], False, tg, ("prelude", len(pre) + 1 + n))
            if T == "Int":
                add("operand", pre, setup + ["def y: Int := %s + 1" % p], False, tg, n)
                add("operand-right", pre, setup + ["def y: Int := 1 + %s" % p], False, tg, n)
            if T == "Str":
                add("operand", pre, setup + ['def y: Str := %s + "a"' % p], False, tg, n)
            if T == "A" and pname != "none":
                add("receiver", pre, setup + ["def y: Int := %s.ma()" % p], False, tg, n)
            # ---- the accepting dual
            add("dual-init-nullable", pre, setup + ["def x: %s? := %s" % (T, p)], True, tg)
            add("dual-arg-nullable", pre, setup + ["def r: Int := pn(%s)" % p], True, tg)
            if pname not in ("none",):
                add("dual-default", pre, setup + ["def x: %s := %s ? %s" % (T, p, v)], True, tg)
        tg = ["T:" + T, "producer:value"]
        add("dual-init-nullable", pre, ["def x: %s? := %s" % (T, v)], True, tg)
        add("dual-arg-nullable", pre, ["def r: Int := pn(%s)" % v], True, tg)
        add("dual-reassign-nullable", pre, ["def x: %s? := %s" % (T, v), "x := None", "x := %s" % v], True, tg)
        add("dual-return-nullable", pre + ["def rn(c: Bool) -> %s? =>" % T, "    if c then", "        return %s" % v, "    else", "        return None"], ["rn(True)"], True, tg)
        add("dual-field-nullable", pre, ["def nho := NH()", "nho.f := %s" % v, "nho.f := None"], True, tg)
    # constructor rule: every non-nullable field must be assigned on all paths
    modes = {
        "always": (["self.%s := 1"], True),
        "then-only": (["if c then", "    self.%s := 1"], False),
        "else-only": (["if c then", '    print("t")', "else", "    self.%s := 1"], False),
        "both-branches": (["if c then", "    self.%s := 1", "else", "    self.%s := 2"], True),
        "match-one-arm": (["match n", "    1 => self.%s := 1", '    _ => print("o")'], False),
        "match-all-arms": (["match n", "    1 => self.%s := 1", "    _ => self.%s := 2"], True),
        "never": ([], False),
    }
    for (ma, (la, oka)), (mb, (lb, okb)) in itertools.product(modes.items(), modes.items()):
        body_init = [l.replace("%s", "a") for l in la] + [l.replace("%s", "b") for l in lb] or ['print("nothing")']
        cls = ["class CK", "    def a: Int", "    def b: Int", "    def __init__(self, c: Bool, n: Int) =>"] + ctxgen.indent(body_init, 2)
        add("ctor-paths", cls, ["def cko := CK(True, 1)"], oka and okb, ["a:" + ma, "b:" + mb], ("prelude", 3) if not (oka and okb) else None)
    # a nullable field may stay unassigned
    add("ctor-nullable-unassigned", ["class CN", "    def a: Int?", "    def b: Int", "    def __init__(self) =>", "        self.b := 1"], ["def cno := CN()"], True, ["a:never-nullable", "b:always"])
    return out


def cases(tier, seed):
    depth = 1 if tier == "quick" else 2
    # every case also with an independent, legal None-in-a-branch at the start of the file (the first None of the file then
    # sits in one constraint set only); thorough: the other noise prefixes too
    yield from ctxgen.cases_for(payloads(tier), depth, "c06", noise=("none-in-branch",) if tier == "quick" else tuple(ctxgen.NOISE))
    # the constructor machine (mv/ctorseq.py): constructor bodies whose only fault is a non-nullable field left unassigned on some path
    yield from ctorseq.cases("C06", tier)


def evaluate(case, drv):
    res = evaluate_verdict(case, drv)
    res.pop("result", None)
    if case["id"].endswith("203"):
        res["sample"] = {"id": case["id"], "expect": case["expect"], "mamba": case["src"]}
    return res
