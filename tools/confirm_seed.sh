#!/bin/bash
# tools/confirm_seed.sh <worktree> : re-confirm a sub-agent's seeded change in its scratch worktree:
#   build with the change, pinned baseline green, demo fails with the change and passes without it.
wt="$1"; cd "$wt" || exit 2
export CARGO_NET_OFFLINE=true
demo=$(ls _seed/demo.sh _seed/demo.py 2>/dev/null | head -1)
[ -z "$demo" ] && { echo "no demo"; ls _seed; exit 2; }
run_demo() { case "$demo" in *.py) python3 "$demo" "$wt";; *) bash "$demo" "$wt";; esac; }
git add -N -- src 2>/dev/null; git diff -- src > /tmp/confirm_patch.diff; git reset -q -- src   # new files are part of the patch
[ -s /tmp/confirm_patch.diff ] || { echo "no change applied"; exit 2; }
cargo build --offline -q 2>&1 | grep -E "^error" | head -3
python3 /tmp/mut/baseline_check.py "$wt" | tail -2
run_demo > /tmp/confirm_with.out 2>&1; with=$?
cp /tmp/confirm_patch.diff "$wt/_seed/.confirm_patch.diff"   # no git stash: the stash list is shared between worktrees
git checkout -q -- src && git clean -fdq -- src && cargo build --offline -q 2>&1 | grep -E "^error" | head -3
run_demo > /tmp/confirm_without.out 2>&1; without=$?
git apply "$wt/_seed/.confirm_patch.diff" && cargo build --offline -q 2>&1 | grep -E "^error" | head -3
echo "demo with change: exit $with ; without: exit $without"
[ "$with" != 0 ] && [ "$without" = 0 ] && echo CONFIRMED || { echo NOT-CONFIRMED; tail -5 /tmp/confirm_with.out /tmp/confirm_without.out; }
