"""C02 - every emitted file is syntactically valid Python 3.

Space: (a) outputs of the whole M0 pool, (b) literal shapes, (c) vanishing bodies
at every block position, (d) match-arm orders, (e) argument shapes, (f) every
single-token mutation of the repository samples and of generated programs - all
with annotate off and on.  Oracle: compile(out, 'exec') must not raise.
"""
from .. import gen_prog, gen_c02, mutate, corpus
from ..pyside import compile_check

ID = "C02"
LEVEL = "exploration"
CHUNK = 48
RULE = ("all inputs of families (a)-(f) x annotate in {off,on}; non-trivial = accepted by the pipeline (its output is compiled "
        "by CPython); distinct by source text")
ASSUMPTIONS = ["CPython 3.11's compile() is the judge of 'valid Python 3' (warnings ignored)",
               "token boundaries for mutation come from an independent regex tokenizer (mv/mutate.py)"]


def mutation_cases(tier):
    quick = tier == "quick"
    files = sorted(corpus.files(), key=lambda ps: (len(mutate.tokenize(ps[1])), ps[0]))
    files = [f for f in files if len(mutate.tokenize(f[1])) > 0]
    chosen = files[:30] if quick else files
    n = 0
    for path, src in chosen:
        ntok = len(mutate.tokenize(src))
        if not quick and ntok > 260:
            kinds = ("delete", "duplicate", "swap")
        else:
            kinds = ("delete", "duplicate", "swap", "replace", "insert")
        for desc, m in mutate.single_mutations(src, kinds=kinds):
            n += 1
            yield {"id": "mut%d" % n, "family": "c02.mutation.corpus", "src": m, "tags": ["seed:" + path, "mut:" + desc.split("@")[0]], "desc": desc}
    # every operator token of every sample (quick: of the 60 smallest samples that contain one) replaced by every other operator token
    opfiles = [f for f in files if any(t in mutate.OPS for _, t in mutate.tokenize(f[1]))]
    for path, src in (opfiles[:60] if quick else opfiles):
        for desc, m in mutate.single_mutations(src, vocab=(), kinds=("op-replace",)):
            n += 1
            yield {"id": "mut%d" % n, "family": "c02.mutation.operators", "src": m, "tags": ["seed:" + path, "mut:op-replace"], "desc": desc}
    progs = [c for c in gen_prog.pool("quick", "FAOH")]
    step = 12 if quick else 2
    for case in progs[::step]:
        for desc, m in mutate.single_mutations(case["src"], kinds=("delete", "duplicate", "swap") if quick else ("delete", "duplicate", "swap", "replace")):
            n += 1
            yield {"id": "mut%d" % n, "family": "c02.mutation.generated", "src": m, "tags": ["seed:" + case["id"], "mut:" + desc.split("@")[0]], "desc": desc}


def cases(tier, seed):
    for c in gen_prog.pool(tier):
        c["family"] = "c02.pool." + c["family"]
        c.pop("ref", None)
        yield c
    yield from gen_c02.all_families(tier)
    # the legal sequences of the scope machine (mv/scopeseq.py): definitions with and without value, shadowing, blocks
    from .. import scopeseq
    for c in scopeseq.cases("C01", "quick"):
        yield {"id": "seq:" + c["id"], "family": "c02.seq." + c["family"].split(".")[-1], "src": c["src"], "tags": c["tags"][:3]}
    for path, src in corpus.files():
        yield {"id": "corpus:" + path, "family": "c02.corpus", "src": src, "tags": ["corpus:" + path]}
    yield from mutation_cases(tier)


def evaluate(case, drv):
    res = {"fail": [], "nontrivial": False, "stats": {}, "key": case["src"], "evals": 2}
    fam = ".".join(case["family"].split(".")[:3])
    for ann in (False, True):
        r = drv.transpile1(case["src"], annotate=ann)
        if r["v"] == "err":
            res["stats"][fam + ".rejected"] = res["stats"].get(fam + ".rejected", 0) + 1
            continue
        if r["v"] != "ok":
            # crashes are C03's business; counted here
            res["stats"][fam + ".crash"] = res["stats"].get(fam + ".crash", 0) + 1
            continue
        res["stats"][fam + ".accepted"] = res["stats"].get(fam + ".accepted", 0) + 1
        res["nontrivial"] = True
        for out in r["out"]:
            err = compile_check(out)
            if err:
                from .c01 import output_tags
                res["fail"].append({"family": case["family"], "kind": "emitted-python-invalid", "detail": err,
                                    "tags": case.get("tags", []) + ["annotate:%s" % ("on" if ann else "off")] + output_tags(out) + err_tags(err, out) + input_tags(case["src"]),
                                    "observed": out[:1200]})
    res["outcome"] = "accepted" if res["nontrivial"] else "rejected"
    if case["id"].endswith("77"):
        res["sample"] = {"id": case["id"], "mamba": case["src"][:400]}
    return res


def input_tags(src):
    """features of the (usually mutated) source that delimit known findings of the mutation space"""
    import re
    tags = []
    if re.search(r"(\bthen|\belse|=>|:=|\breturn)[ \t]*def\b", src):   # (not after '(' or ',': class arguments are written 'def a: T')
        tags.append("in:def-at-expression-position")
    if re.search(r":[ \t]*\{[ \t]*\}", src):
        tags.append("in:empty-braces-as-type")
    if re.search(r"\bdef[ \t]*\([ \t]*\)[ \t]*(\n|$|handle\b)", src):
        tags.append("in:empty-tuple-declared-without-value")
    if re.search(r'"[^"\n]*\{[^{}"\n]*"', src):
        tags.append("in:dq-string-in-interpolation")
    return tags


def err_tags(err, out):
    tags = []
    e = err.lower()
    if "leading zeros" in e:
        tags.append("err:leading-zeros")
    if "unterminated string" in e or "eol while scanning" in e:
        tags.append("err:unterminated-string")
    if "expected an indented block" in e:
        tags.append("err:empty-suite")
    if "f-string" in e:
        tags.append("err:f-string")
    if "makes remaining patterns unreachable" in e or "wildcard makes" in e or "name capture" in e:
        tags.append("err:irrefutable-pattern-not-last")
    if "invalid decimal literal" in e:
        tags.append("err:invalid-decimal-literal")
    return tags
