"""C08 - explicit error handling: raises must be declared or handled.

hierarchy Exception > E1 > E2, Exception > E3, non-exception N.  For every raised
class / declared-raise set of a callee, every declared set of the enclosing
function, every ordered arm list and every position, the program is accepted iff
every raisable class has an ancestor-or-self among arms + declared; accepted
programs are executed with the class really raised and the arm executed must be
the first whose class is an ancestor-or-self (else the exception escapes).
"""
import itertools

from ..pyside import run_python
from .. import raiseseq
from ..staticprop import first_message

ID = "C08"
LEVEL = "exploration"
CHUNK = 32
RULE = ("complete product raised class / callee raise set x declared set of the host x ordered arm list x position; static expectation by "
        "construction, dynamic expectation by the first-matching-arm rule; non-trivial = every case; distinct by source text")
ASSUMPTIONS = ["the raise happens inside a function body (the property's scope); the host is called from a top-level handle with an Exception arm so that escaping exceptions are observed",
               "an arm for Exception covers every user exception"]

ANC = {"E1": ["E1", "Exception"], "E2": ["E2", "E1", "Exception"], "E3": ["E3", "Exception"], "Exception": ["Exception"]}
DECLS = ["class E1(msg: Str): Exception(msg)", "class E2(msg: Str): E1(msg)", "class E3(msg: Str): Exception(msg)", "class N(msg: Str)"]
IND = "    "


def covered(x, catchers):
    return any(a in catchers for a in ANC[x])


def first_arm(x, arms):
    for a in arms:
        if a in ANC[x]:
            return a
    return None


def subsets(items, k):
    out = [()]
    for n in range(1, k + 1):
        out += list(itertools.combinations(items, n))
    return out


def ordered(items, k):
    out = [()]
    for n in range(1, k + 1):
        out += list(itertools.permutations(items, n))
    return out


def host_program(raiser_lines, declared, arms, position, raised_desc):
    """the host function `host()`; raiser_lines: the guarded statement (one line, an expression statement of type Int)"""
    raise_clause = (" raise [%s]" % ", ".join(declared)) if declared else ""
    guarded = raiser_lines
    if arms:
        stmt = [guarded + " handle"] + [IND + "err: %s =>" % a + "\n" + IND * 2 + 'print("arm %s")' % a + "\n" + IND * 2 + "0 - 1" for a in arms]
    else:
        stmt = [guarded]
    stmt = "\n".join(stmt).split("\n")
    if position in ("stmt", "after-top-handle"):
        body = stmt
    elif position == "init":
        body = ["def hv: Int := " + stmt[0]] + stmt[1:] + ["print(hv)"]
    elif position == "in-if":
        body = ["def hc := True", "if hc then"] + [IND + l for l in stmt]
    elif position == "in-loop":
        body = ["for hi in 0 .. 1 do"] + [IND + l for l in stmt]
    elif position == "in-match-arm":
        # the other arm also yields an Int: arms of different value types are refused (not an error-handling matter)
        body = ["def hm := 1", "match hm", IND + "1 =>"] + [IND * 2 + l for l in stmt] + [IND + "_ =>", IND * 2 + "0"]
    elif position == "in-outer-arm":
        body = ["quiet(1) handle", IND + "oe: E3 =>"] + [IND * 2 + l for l in stmt]
    elif position == "after-handle":
        # an earlier, complete handle for all classes must not leave its arms in force
        body = ["quiet(0) handle", IND + "oe: Exception =>", IND * 2 + 'print("never")'] + stmt
    else:
        raise ValueError(position)
    host = ["def host() -> Int%s =>" % raise_clause] + [IND + l for l in body] + [IND + "7"]
    return host


def cases(tier, seed):
    quick = tier == "quick"
    raisable = ["E1", "E2", "E3"]
    positions = ["stmt", "init", "in-if", "in-loop", "in-match-arm", "in-outer-arm", "after-handle", "after-top-handle"]
    # an earlier, complete top-level handle (outside any function) must not leave its arms in force for the
    # functions defined after it
    top_handle = ["quiet(0) handle", IND + "oe: Exception =>", IND * 2 + 'print("never")', IND * 2 + "0"]
    n = 0
    pre = DECLS + ["def quiet(n: Int) -> Int raise [E3] =>", IND + "if n > 0 then", IND * 2 + 'raise E3("q")', IND + "n"]
    declared_sets = subsets(["Exception", "E1", "E2", "E3"], 2)
    arm_lists = ordered(["Exception", "E1", "E2", "E3"], 2)
    for position in positions:
        for declared in declared_sets:
            for arms in arm_lists:
                if quick and position not in ("stmt", "init") and len(declared) + len(arms) > 2:
                    continue
                # (1) direct raise of X
                for x in raisable:
                    if position == "init":
                        continue  # a raise statement is not an initialiser
                    catch = set(arms) | set(declared)
                    ok = covered(x, catch)
                    if arms:
                        continue  # `raise X() handle` is not a form; direct raises are guarded through the callee forms below
                    src_lines = pre + (top_handle if position == "after-top-handle" else []) + host_program('raise %s("direct")' % x, declared, (), position, x)
                    n += 1
                    yield mk(n, "c08.direct-raise", src_lines, ok, [x], [x], declared, arms, position)
                # (2) call of a callee declaring raise [S]
                for S in subsets(raisable, 2)[1:]:
                    catch = set(arms) | set(declared)
                    ok = all(covered(s, catch) for s in S)
                    callee = ["def callee(k: Int) -> Int raise [%s] =>" % ", ".join(S)]
                    for i, s in enumerate(S):
                        callee += [IND + "if k = %d then" % (i + 1), IND * 2 + 'raise %s("c")' % s]
                    callee += [IND + "k"]
                    for actual in range(0, len(S) + 1):
                        if quick and actual > 1 and position != "stmt":
                            continue
                        src_lines = pre + (top_handle if position == "after-top-handle" else []) + callee + host_program("callee(%d)" % actual, declared, arms, position, S)
                        n += 1
                        yield mk(n, "c08.call", src_lines, ok, list(S), [S[actual - 1]] if actual else [], declared, arms, position)
    # only subclasses of Exception may be declared
    for where in ("host", "callee"):
        n += 1
        src = DECLS + (["def host() -> Int raise [N] => 7"] if where == "host" else ["def callee() -> Int raise [N] => 1", "def host() -> Int => 7"])
        yield mk(n, "c08.non-exception-declared", src, False, [], [], ["N"], (), "decl")
    for cls in ("E1", "E2", "E3", "Exception"):
        n += 1
        yield mk(n, "c08.exception-declared", DECLS + ["def host() -> Int raise [%s] => 7" % cls], True, [], [], [cls], (), "decl")
    # the raise machine: every function body over {raise X, call raising X, handle (arms, guarded call, arm body), if} within a bound
    yield from raiseseq.cases(tier)


def mk(n, family, src_lines, ok, raisable, actual, declared, arms, position):
    top = ["host() handle", IND + "te: Exception =>", IND * 2 + 'print("escaped")', IND * 2 + "0"]
    src = "\n".join(src_lines + top) + "\n"
    return {"id": "c08-%d" % n, "family": family, "src": src, "expect": "ok" if ok else "err", "raisable": raisable, "actual": actual,
            "declared": list(declared), "arms": list(arms), "position": position,
            "tags": ["pos:" + position, "declared:" + ",".join(declared), "arms:" + ",".join(arms), "raisable:" + ",".join(raisable), "expect:" + ("ok" if ok else "err")]}


def expected_lines(case):
    """dynamic expectation of an accepted program"""
    if not case["actual"]:
        return None  # nothing raised: only check it runs without escaping
    x = case["actual"][0]
    arm = first_arm(x, case["arms"])
    if arm:
        return "arm " + arm
    return "escaped"


def evaluate_seq(case, drv):
    """a sequence of the raise machine (mv/raiseseq.py): static verdict, then the trace the reference model predicts"""
    res = {"fail": [], "nontrivial": True, "stats": {}, "key": case["src"], "evals": 1}
    r = drv.transpile1(case["src"])
    v = r["v"]
    res["outcome"] = "seq:%s/%s" % (case["expect"], v)
    res["stats"]["c08.seq.%s.%s" % (case["expect"], v)] = 1
    fam = case["family"]
    if v not in ("ok", "err"):
        res["fail"].append({"family": fam, "kind": "crash-" + v, "detail": str(r)[:300], "tags": case["tags"]})
    elif case["expect"] == "ok" and v == "err":
        res["fail"].append({"family": fam, "kind": "over-rejection", "detail": "handled/declared raise rejected: " + first_message(r["errs"]), "tags": case["tags"]})
    elif case["expect"] == "err" and v == "ok":
        res["fail"].append({"family": fam, "kind": "accepted-unhandled", "detail": "raise neither handled nor declared, accepted", "tags": case["tags"], "observed": r["out"][0][-500:]})
    elif v == "ok":
        x = run_python(r["out"][0])
        res["evals"] = 2
        if x["compile_error"]:
            res["fail"].append({"family": fam, "kind": "emitted-python-invalid", "detail": x["compile_error"], "tags": case["tags"]})
        elif x["exc"]:
            res["fail"].append({"family": fam, "kind": "exception-escapes-top-level-handle", "detail": "%s: %s" % (x["exc"], x["exc_msg"]), "tags": case["tags"]})
        elif x["stdout"] != case["prints"]:
            d = next((i for i, (a, b) in enumerate(zip(x["stdout"], case["prints"])) if a != b), min(len(x["stdout"]), len(case["prints"])))
            res["fail"].append({"family": fam, "kind": "wrong-trace", "detail": "trace differs from the reference model at line %d: expected %r, observed %r" % (d, case["prints"][max(0, d - 2):d + 2], x["stdout"][max(0, d - 2):d + 2]),
                                "tags": case["tags"], "observed": r["out"][0][-700:]})
    if case["id"].endswith("177"):
        res["sample"] = {"id": case["id"], "expect": case["expect"], "mamba": case["src"]}
    return res


def evaluate(case, drv):
    if case["family"] == "c08.seq":
        return evaluate_seq(case, drv)
    res = {"fail": [], "nontrivial": True, "stats": {}, "key": case["src"], "evals": 1}
    r = drv.transpile1(case["src"])
    v = r["v"]
    res["outcome"] = "%s/%s" % (case["expect"], v)
    res["stats"]["c08.%s.%s" % (case["expect"], v)] = 1
    fam = case["family"]
    if v not in ("ok", "err"):
        res["fail"].append({"family": fam, "kind": "crash-" + v, "detail": str(r)[:300], "tags": case["tags"]})
        return res
    if case["expect"] == "ok" and v == "err":
        res["fail"].append({"family": fam, "kind": "over-rejection", "detail": "handled/declared raise rejected: " + first_message(r["errs"]), "tags": case["tags"]})
    elif case["expect"] == "err" and v == "ok":
        res["fail"].append({"family": fam, "kind": "accepted-unhandled", "detail": "raise neither handled nor declared, accepted", "tags": case["tags"], "observed": r["out"][0][-500:]})
    elif v == "ok" and case["position"] != "decl":
        # dynamic half
        x = run_python(r["out"][0])
        want = expected_lines(case)
        lines = x["stdout"]
        res["evals"] = 2
        if x["compile_error"]:
            res["fail"].append({"family": fam, "kind": "emitted-python-invalid", "detail": x["compile_error"], "tags": case["tags"]})
        elif x["exc"]:
            res["fail"].append({"family": fam, "kind": "exception-escapes-top-level-handle", "detail": "%s: %s" % (x["exc"], x["exc_msg"]), "tags": case["tags"]})
        elif want is not None:
            marks = [l for l in lines if l.startswith("arm ") or l == "escaped"]
            if marks[:1] != [want]:
                res["fail"].append({"family": fam, "kind": "wrong-arm", "detail": "raised %s with arms %s: expected %r, observed %r" % (case["actual"], case["arms"], want, marks),
                                    "tags": case["tags"], "observed": r["out"][0][-500:]})
        else:
            if any(l.startswith("arm ") or l == "escaped" for l in lines):
                res["fail"].append({"family": fam, "kind": "spurious-catch", "detail": "nothing raised but observed %r" % lines, "tags": case["tags"]})
    if case["id"].endswith("77"):
        res["sample"] = {"id": case["id"], "expect": case["expect"], "mamba": case["src"]}
    return res
