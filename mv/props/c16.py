"""C16 - emitted modules are self-contained.

Every construct that needs a support import (sqrt -> math; nullable, union,
tuple, function types and Any in annotations -> typing; conditional type
aliases -> NewType; interfaces -> ABC, abstractmethod) x every position x
annotate, plus user imports and user names equal to the support names, plus the
whole M0 pool.  Oracle: free-name analysis of the output (symtable): every name
that is global and unbound at module level must be a builtin or unbound in the
source too; every support import sits at the top of the module, once; user
imports are reproduced; executed outputs must not raise NameError.
"""
import ast
import builtins
import symtable

from .. import gen_prog
from ..pyside import run_python

ID = "C16"
LEVEL = "exploration"
CHUNK = 32
RULE = ("complete product support-import constructs x positions x annotate, user-import interactions, and the M0 pool; non-trivial = accepted "
        "by the pipeline, its output analysed; distinct by source text")
ASSUMPTIONS = ["free names are computed with CPython's symtable on the emitted module; the generated sources have no free names of their own except their user imports",
               "support names: math, Optional, Union, Tuple, Callable, Any, NewType (typing), ABC, abstractmethod (abc)"]

SUPPORT = {"math": ("import", "math"), "Optional": ("typing", "Optional"), "Union": ("typing", "Union"), "Tuple": ("typing", "Tuple"), "Callable": ("typing", "Callable"),
           "Any": ("typing", "Any"), "NewType": ("typing", "NewType"), "ABC": ("abc", "ABC"), "abstractmethod": ("abc", "abstractmethod")}

TYPES = [  # (tag, type text, value expression, prelude)
    ("nullable", "Int?", "None", []),
    ("nullable-class", "Kc?", "None", ["class Kc"]),
    ("union", "{Int, Str}", "1", []),
    ("tuple", "(Int, Str)", '(1, "a")', []),
    ("callable1", "Int -> Int", "\\cx: Int => cx + 1", []),
    ("callable2", "(Int, Int) -> Int", "\\cx: Int, cy: Int => cx + cy", []),
    ("any", "Any", "1", []),
    ("tuple-of-tuple", "((Int, Str), Int)", '((1, "a"), 2)', []),
    ("callable-returning-nullable", "Int -> Int?", "\\cx: Int => None", []),
    ("union-nullable", "{Int?, Str}", "None", []),
    ("plain", "Int", "1", []),
]


def type_positions(tag, ty, val, pre):
    yield "var-top", pre + ["def v: %s := %s" % (ty, val)]
    yield "var-in-function", pre + ["def fn() =>", "    def v: %s := %s" % (ty, val), "fn()"]
    yield "var-in-method", pre + ["class Mc", "    def m(self) =>", "        def v: %s := %s" % (ty, val), "def mo := Mc()", "mo.m()"]
    yield "parameter", pre + ["def fp(p: %s) => print(1)" % ty, "fp(%s)" % val]
    yield "method-parameter", pre + ["class Mp", "    def m(self, p: %s) => print(1)" % ty, "def mpo := Mp()", "mpo.m(%s)" % val]
    yield "return", pre + ["def fr() -> %s => %s" % (ty, val), "fr()"]
    yield "method-return", pre + ["class Mr", "    def m(self) -> %s => %s" % (ty, val), "def mro := Mr()", "mro.m()"]
    yield "field", pre + ["class Fc", "    def f: %s := %s" % (ty, val), "def fo := Fc()"]
    yield "class-argument", pre + ["class Ca(def a: %s)" % ty, "def cao := Ca(%s)" % val]
    yield "if-assigned", pre + ["def cc := True", "def v: %s := if cc then" % ty, "    print(1)", "    %s" % val, "else", "    %s" % val]
    yield "match-assigned", pre + ["def mm := 1", "def v: %s := match mm" % ty, "    1 => %s" % val, "    _ => %s" % val]
    yield "handle-assigned", pre + ["class He(m: Str): Exception(m)", "def hf() -> %s raise [He] => %s" % (ty, val), "def v: %s := hf() handle" % ty, "    he: He => %s" % val]
    yield "inferred-var", pre + ["def v := %s" % val] if tag not in ("callable1", "callable2", "callable-returning-nullable") else pre + ["def v: %s := %s" % (ty, val)]
    yield "two-uses", pre + ["def v1: %s := %s" % (ty, val), "def v2: %s := %s" % (ty, val), "def f2(p: %s) -> %s => p" % (ty, ty)]
    yield "in-loop", pre + ["for li in 0 .. 2 do", "    def v: %s := %s" % (ty, val)]


def sqrt_positions():
    e = "sqrt 4.0"
    yield "init-top", ["def r := %s" % e, "print(r)"]
    yield "print", ["print(%s)" % e]
    yield "function-body", ["def fs(x: Float) -> Float => sqrt x", "print(fs(4.0))"]
    yield "method-body", ["class Ms", "    def m(self, x: Float) -> Float => sqrt x", "def mso := Ms()", "print(mso.m(4.0))"]
    yield "field-init", ["class Fs", "    def f: Float := %s" % e, "def fso := Fs()", "print(fso.f)"]
    yield "default-argument", ["def fd(x: Float := %s) -> Float => x" % e, "print(fd())"]
    yield "condition", ["if %s > 1.0 then" % e, '    print("big")']
    yield "in-loop", ["for si in 0 .. 2 do", "    print(%s)" % e]
    yield "in-match-arm", ["def sm := 1", "match sm", "    1 => print(%s)" % e, '    _ => print("o")']
    yield "in-handle-arm", ["class Se(m: Str): Exception(m)", "def sf(n: Int) -> Float raise [Se] =>", "    if n > 0 then", '        raise Se("x")', "    1.0", "def sv: Float := sf(1) handle", "    se: Se => %s" % e, "print(sv)"]
    yield "interpolation", ['print("root {%s}")' % e]
    yield "argument", ["def fa(x: Float) -> Float => x", "print(fa(%s))" % e]
    yield "operand", ["print((%s) + 1.0)" % e]
    yield "twice", ["print(%s)" % e, "print(sqrt 9.0)"]
    yield "only-in-unused-function", ["def never(x: Float) -> Float => sqrt x", 'print("x")']


def other_constructs():
    yield "alias-class", ["type MyStr: Str"]
    yield "alias-conditional", ["type Pos: Int when self > 0"]
    yield "alias-conditional-block", ["type Rng: Int when", "    self > 0", "    self < 9"]
    yield "interface", ["type Named", "    def name(self) -> Str", "class Tn: Named", '    def name(self) -> Str => "t"', "def tn := Tn()", "print(tn.name())"]
    yield "interface-field", ["type HasV", "    def v: Int", "class Hv: HasV", "    def v: Int := 1", "def hv := Hv()", "print(hv.v)"]
    yield "interface-of-interface", ["type Sup", "    def a(self) -> Int", "type Sub: Sup", "    def b(self) -> Int", "class Im: Sub", "    def a(self) -> Int => 1", "    def b(self) -> Int => 2", "def im := Im()", "print(im.a() + im.b())"]
    yield "interface-and-nullable", ["type Nm", "    def name(self) -> Str?", "class Tm: Nm", "    def name(self) -> Str? => None", "def tm := Tm()", "print(tm.name())"]
    yield "everything", ["type Ev", "    def go(self, f: Int -> Int) -> Int?", "class Ei: Ev", "    def go(self, f: Int -> Int) -> Int? => f(1)", "def t: (Int, Str) := (1, \"a\")", "def u: {Int, Str} := 1",
                         "def a: Any := 1", "print(sqrt 4.0)", "def ei := Ei()", "print(ei.go(\\x: Int => x + 1))"]


def user_import_cases():
    """user imports and user names equal to the support names"""
    yield "user-import-plain", ["import os", "from sys import argv", "def x := 1", "print(x)"], {"os", "argv"}
    yield "user-import-math-then-sqrt", ["import math", "print(sqrt 4.0)"], {"math"}
    yield "user-import-math-as-then-sqrt", ["import math as mm", "print(sqrt 4.0)"], {"mm"}
    yield "user-from-typing-then-nullable", ["from typing import Optional", "def x: Int? := None"], {"Optional"}
    yield "user-from-typing-other-then-nullable", ["from typing import List", "def x: Int? := None"], {"List"}
    yield "user-import-abc-then-interface", ["from abc import ABC", "type Nn", "    def n(self) -> Int"], {"ABC"}
    yield "user-var-named-math", ["def math := 3", "print(math)", "print(sqrt 4.0)"], set()
    yield "user-function-named-math", ["def math() -> Int => 3", "print(math())", "print(sqrt 4.0)"], set()
    yield "user-class-named-Optional", ["class Optional(def v: Int)", "def o := Optional(1)", "def x: Int? := None", "print(o.v)"], set()
    yield "user-class-named-Union", ["class Union(def v: Int)", "def o := Union(1)", "def c := True", "def x: {Int, Str} := if c then 1 else \"a\"", "print(o.v)"], set()
    yield "user-class-named-ABC", ["class ABC", "    def k(self) -> Int => 1", "type In", "    def n(self) -> Int", "def a := ABC()", "print(a.k())"], set()
    yield "user-param-named-math", ["def fm(math: Float) -> Float => sqrt math", "print(fm(4.0))"], set()
    yield "user-class-named-Callable", ["class Callable2(def v: Int)", "def h(f: Int -> Int) -> Int => f(1)", "print(h(\\x: Int => x))"], set()


NEEDS = [  # support name, user import line, construct needing the support name (module level), the same inside a function
    ("math", "import math", ["print(sqrt 4.0)"], ["def nf() -> Float => sqrt 4.0", "print(nf())"]),
    ("Optional", "from typing import Optional", ["def nx: Int? := None"], ["def nf(np: Int?) => print(1)", "nf(None)"]),
    ("Union", "from typing import Union", ["def nu: {Int, Str} := 1"], ["def nf(np: {Int, Str}) => print(1)", "nf(1)"]),
    ("Tuple", "from typing import Tuple", ['def nt: (Int, Str) := (1, "a")'], ['def nf(np: (Int, Str)) => print(1)', 'nf((1, "a"))']),
    ("Callable", "from typing import Callable", ["def nh(f: Int -> Int) -> Int => f(1)", "print(nh(\\x: Int => x))"], ["def nh(f: Int -> Int) -> Int => f(1)", "print(nh(\\x: Int => x))"]),
    ("Any", "from typing import Any", ["def na: Any := 1"], ["def nf(np: Any) => print(1)", "nf(1)"]),
    ("NewType", "from typing import NewType", ["type NPos: Int when self > 0"], ["type NPos: Int when self > 0"]),
    ("ABC", "from abc import ABC", ["type NIn", "    def n(self) -> Int"], ["type NIn", "    def n(self) -> Int"]),
    ("abstractmethod", "from abc import abstractmethod", ["type NIn", "    def n(self) -> Int"], ["type NIn", "    def n(self) -> Int"]),
]


def misplaced_user_imports():
    """the user imports a support name himself, but not where it makes the generator's own import redundant: after the first
    use, inside a function / method / branch (a scope the use is not in), or under an alias"""
    for name, imp, top_use, fun_use in NEEDS:
        for uname, use in (("use-top", top_use), ("use-in-function", fun_use)):
            yield name, "import-first", uname, [imp] + use
            yield name, "import-after-use", uname, use + [imp]
            yield name, "import-in-uncalled-function", uname, ["def uif() =>", "    " + imp, "    print(0)"] + use
            yield name, "import-in-called-function-after", uname, ["def uif() =>", "    " + imp, "    print(0)"] + use + ["uif()"]
            yield name, "import-in-method", uname, ["class Uim", "    def m(self) =>", "        " + imp, "        print(0)"] + use
            yield name, "import-in-branch-not-taken", uname, ["def uc := False", "if uc then", "    " + imp, "    print(0)"] + use
            yield name, "import-in-loop-zero-times", uname, ["for ui in 0 .. 0 do", "    " + imp, "    print(0)"] + use
            yield name, "import-aliased", uname, [imp + " as ualias"] + use


def cases(tier, seed):
    n = 0
    for name, where, uname, lines in misplaced_user_imports():
        n += 1
        yield {"id": "c16-%d" % n, "family": "c16.misplaced-user-import", "src": "\n".join(lines) + "\n", "allowed": [], "run": True, "user_written_imports": True,
               "tags": ["support:" + name, "user-" + where, uname]}
    for tag, ty, val, pre in TYPES:
        for pos, lines in type_positions(tag, ty, val, pre):
            n += 1
            yield {"id": "c16-%d" % n, "family": "c16.type." + tag, "src": "\n".join(lines) + "\n", "allowed": [], "run": True, "tags": ["construct:" + tag, "pos:" + pos]}
    for pos, lines in sqrt_positions():
        n += 1
        yield {"id": "c16-%d" % n, "family": "c16.sqrt", "src": "\n".join(lines) + "\n", "allowed": [], "run": True, "tags": ["construct:sqrt", "pos:" + pos]}
    for name, lines in other_constructs():
        n += 1
        yield {"id": "c16-%d" % n, "family": "c16.other", "src": "\n".join(lines) + "\n", "allowed": [], "run": True, "tags": ["construct:" + name]}
    for name, lines, allowed in user_import_cases():
        n += 1
        yield {"id": "c16-%d" % n, "family": "c16.user-import", "src": "\n".join(lines) + "\n", "allowed": sorted(allowed), "run": "import os" not in lines, "user_imports": [l for l in lines if l.startswith(("import ", "from "))],
               "tags": ["construct:" + name]}
    # composition: every type construct together with sqrt and an interface in one module
    for tag, ty, val, pre in TYPES:
        n += 1
        lines = pre + ["type Cn", "    def nm(self) -> Str", "def v: %s := %s" % (ty, val), "print(sqrt 4.0)"]
        yield {"id": "c16-%d" % n, "family": "c16.combined", "src": "\n".join(lines) + "\n", "allowed": [], "run": True, "tags": ["construct:" + tag, "combined"]}
    for c in gen_prog.pool(tier if tier == "quick" else "quick"):
        n += 1
        yield {"id": "c16-%d" % n, "family": "c16.pool." + c["family"].split(".")[0], "src": c["src"], "allowed": [], "run": False, "tags": c["tags"][:3]}


BUILTINS = set(dir(builtins))


def free_globals(py):
    """names referenced as globals anywhere in the module but not bound at module level"""
    top = symtable.symtable(py, "out.py", "exec")
    bound = set()
    for s in top.get_symbols():
        if s.is_assigned() or s.is_imported() or s.is_namespace() or s.is_parameter():
            bound.add(s.get_name())
    free = set()

    def walk(t, is_top):
        for s in t.get_symbols():
            name = s.get_name()
            if not s.is_referenced():
                continue
            if is_top:
                if name not in bound:
                    free.add(name)
            elif s.is_global() and name not in bound:
                free.add(name)
        for c in t.get_children():
            walk(c, False)

    walk(top, True)
    return {f for f in free if f not in BUILTINS}


def import_layout(py):
    """(list of (module, name) imported at top level in order, index of first non-import statement, positions of imports)"""
    tree = ast.parse(py)
    imports = []
    late = []
    seen_other = False
    for i, st in enumerate(tree.body):
        if isinstance(st, (ast.Import, ast.ImportFrom)):
            for a in st.names:
                key = ("import", a.name, a.asname) if isinstance(st, ast.Import) else (st.module, a.name, a.asname)
                imports.append(key)
                if seen_other:
                    late.append(key)
        elif isinstance(st, ast.Expr) and isinstance(st.value, ast.Constant) and isinstance(st.value.value, str) and i == 0:
            continue
        else:
            seen_other = True
    nested = [n for n in ast.walk(tree) if isinstance(n, (ast.Import, ast.ImportFrom)) and n not in tree.body]
    return imports, late, nested


def evaluate(case, drv):
    res = {"fail": [], "nontrivial": False, "stats": {}, "key": case["src"], "evals": 0}
    fam = case["family"]
    for ann in (False, True):
        r = drv.transpile1(case["src"], annotate=ann)
        res["evals"] += 1
        tags = case["tags"] + ["annotate:%s" % ("on" if ann else "off")]
        if r["v"] != "ok":
            res["stats"]["%s.%s" % (".".join(fam.split(".")[:2]), r["v"])] = res["stats"].get("%s.%s" % (".".join(fam.split(".")[:2]), r["v"]), 0) + 1
            continue
        res["nontrivial"] = True
        py = r["out"][0]
        try:
            free = free_globals(py)
            imports, late, nested = import_layout(py)
        except SyntaxError:
            res["stats"]["c16.unparsable"] = res["stats"].get("c16.unparsable", 0) + 1
            continue
        free -= set(case.get("allowed", []))
        if free:
            res["fail"].append({"family": fam, "kind": "unbound-global", "detail": "unbound global name(s) %s in the emitted module" % sorted(free), "tags": tags + ["free:" + f for f in sorted(free)], "observed": py[:700]})
        if case.get("user_written_imports"):
            # the user's own import statements of support names are reproduced where he wrote them: only name binding and execution are judged
            imports, late, nested = [], [], []
        support_keys = [k for k in imports if (k[0] == "import" and k[1] == "math" and k[2] is None) or (k[0] in ("typing", "abc") and k[1] in SUPPORT)]
        dups = sorted({k for k in support_keys if support_keys.count(k) > 1})
        user = [tuple(l.split()) for l in case.get("user_imports", [])]
        if dups and not any(d[1] in " ".join(case.get("user_imports", [])) for d in dups):
            res["fail"].append({"family": fam, "kind": "support-import-duplicated", "detail": "imported more than once: %s" % dups, "tags": tags, "observed": py[:400]})
        if [k for k in late if k in support_keys]:
            res["fail"].append({"family": fam, "kind": "support-import-not-at-top", "detail": "import after other statements: %s" % late, "tags": tags, "observed": py[:400]})
        if nested:
            res["fail"].append({"family": fam, "kind": "support-import-nested", "detail": "import statement inside a block", "tags": tags, "observed": py[:400]})
        for l in case.get("user_imports", []):
            if l not in py:
                res["fail"].append({"family": fam, "kind": "user-import-not-reproduced", "detail": "%r missing from the output" % l, "tags": tags, "observed": py[:400]})
        if case.get("run") and not free:
            x = run_python(py)
            res["evals"] += 1
            if x["exc"] == "NameError":
                res["fail"].append({"family": fam, "kind": "NameError-at-run-time", "detail": x["exc_msg"], "tags": tags, "observed": py[:700]})
    if case["id"].endswith("41"):
        res["sample"] = {"id": case["id"], "mamba": case["src"]}
    return res
