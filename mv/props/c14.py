"""C14 - layout trivia never changes meaning.

Base programs: M0 pool programs of <= 14 lines and repository samples.  Every
single trivia item of the property's list is inserted at every gap / line (and
every pair in the thorough tier for the small bases): trailing comment,
whole-line comment indented like the previous / next statement, empty line,
whitespace-only line, trailing spaces, final newline on/off, LF <-> CRLF;
existing comments / blank lines of samples are removed one at a time; redundant
parentheses are put around every sub-expression of the M0 trees.  Oracle: same
verdict and byte-identical Python (same behaviour for the parentheses item).
Parser level (mvdrv layoutparse): ALL well-formed line skeletons of <= 5 (6)
code lines (statements, if / else, while, for, def, class with members, match
and handle with one-line and block arms, nested) x every single trivia
placement (and doubled blank / comment lines, CRLF, final newlines): the parse
verdict and the parse tree with positions erased must equal the skeleton's.
"""
import ast
import itertools
import re

from .. import gen_prog, gen_c04, mutate, corpus
from ..lang import to_mamba

ID = "C14"
LEVEL = "exploration"
CHUNK = 1
RULE = ("every placement of every listed trivia item in every base program; one case = one base with all its variants; non-trivial = variant of an "
        "accepted base whose output is compared byte for byte; distinct by variant text")
ASSUMPTIONS = ["whole-line comments are inserted with the indentation of the neighbouring statement (previous or next), as the property states; other indentations are not in the space",
               "gaps inside multi-line string literals are not touched (that would change the literal)"]


def lines_in_strings(src):
    """0-based indices of lines that start inside a multi-line string token"""
    inside = set()
    line = 0
    for k, t in mutate.tokenize(src):
        n = t.count("\n")
        if k == "str" and n:
            inside.update(range(line + 1, line + n + 1))
        line += n
    return inside


COMMENT_TEXTS = ["##", "##   ", "###", "# #", "## note", "#", "### heading ##", "## see ## total", '# "quoted', "# {brace", "# def x := 1", "# ends with backslash \\", "#! shebang", "# tab\tinside", "# ünïcode"]


def indent_of(l):
    return len(l) - len(l.lstrip(" "))


def variants(src, pairs=False):
    """yield (description, variant text, compare) ; compare in {'bytes'}"""
    had_nl = src.endswith("\n")
    lines = src.split("\n")
    if had_nl:
        lines = lines[:-1]
    n = len(lines)
    inside = lines_in_strings(src)
    code = [i for i in range(n) if lines[i].strip() and not lines[i].lstrip().startswith("#") and i not in inside]

    def build(ls, nl=had_nl, eol="\n"):
        return eol.join(ls) + (eol if nl else "")

    singles = []
    for gap in range(0, n + 1):
        if gap in inside:
            continue
        prev = next((i for i in range(gap - 1, -1, -1) if i in code), None)
        nxt = next((i for i in range(gap, n) if i in code), None)
        ins = []
        if prev is not None:
            ins.append(("comment-like-prev", " " * indent_of(lines[prev]) + "# note"))
        if nxt is not None:
            ins.append(("comment-like-next", " " * indent_of(lines[nxt]) + "# note"))
        if prev is not None and nxt is not None and indent_of(lines[prev]) != indent_of(lines[nxt]):
            # two comment lines in one gap, each indented like one of the neighbouring statements, in both orders
            a, b = " " * indent_of(lines[prev]) + "# note", " " * indent_of(lines[nxt]) + "# note"
            ins.append(("comment-prev-then-next", a + "\n" + b))
            ins.append(("comment-next-then-prev", b + "\n" + a))
        ins.append(("empty-line", ""))
        for k in (2, 4, 8, 12):
            ins.append(("spaces-only-%d" % k, " " * k))
        for name, text in ins:
            singles.append(("%s@gap%d" % (name, gap), ("ins", gap, text)))
    for i in code:
        last = mutate.tokenize(lines[i])
        # a trailing comment after a line that ends inside a string would change it
        singles.append(("trailing-comment@line%d" % i, ("app", i, "  # note")))
        singles.append(("trailing-spaces@line%d" % i, ("app", i, "   ")))

    def apply(ops):
        ls = list(lines)
        # apply appends first, then insertions from the bottom up
        for op in ops:
            if op[0] == "app":
                ls[op[1]] = ls[op[1]] + op[2]
        for op in sorted([o for o in ops if o[0] == "ins"], key=lambda o: -o[1]):
            ls.insert(op[1], op[2])
        return ls

    # other comment TEXTS (a comment is trivia whatever it contains): at the first, a middle and the last code line, as whole-line
    # comment before it and as trailing comment after it
    extra_singles = []
    if code:
        for i in sorted({code[0], code[len(code) // 2], code[-1]} if pairs else {code[0], code[-1]}):   # (quick tier: first and last code line)
            for k, text in enumerate(COMMENT_TEXTS):
                if i not in inside:
                    extra_singles.append(("comment-text-%d-before@line%d" % (k, i), ("ins", i, " " * indent_of(lines[i]) + text)))
                extra_singles.append(("comment-text-%d-trailing@line%d" % (k, i), ("app", i, "  " + text)))
    # appending to a line that ends inside a string literal would change the literal: not trivia (singles and pairs alike)
    extra_singles = [(desc, op) for desc, op in extra_singles if not (op[0] == "app" and (op[1] + 1) in inside)]
    for desc, op in extra_singles:
        yield desc, build(apply([op]))
    singles = [(desc, op) for desc, op in singles if not (op[0] == "app" and (op[1] + 1) in inside)]
    for desc, op in singles:
        yield desc, build(apply([op]))
    yield "final-newline-" + ("off" if had_nl else "on"), build(lines, nl=not had_nl)
    if not any("\r" in l for l in lines):
        yield "crlf", build(lines, eol="\r\n")
        yield "crlf-no-final-newline", build(lines, nl=False, eol="\r\n")
    # removal of existing trivia
    for i in range(n):
        if i in inside:
            continue
        if not lines[i].strip() or lines[i].lstrip().startswith("#"):
            yield "remove-trivia-line@%d" % i, build(lines[:i] + lines[i + 1:])
        elif "#" in lines[i] and '"' not in lines[i]:
            yield "remove-trailing-comment@%d" % i, build(lines[:i] + [lines[i].split("#")[0].rstrip()] + lines[i + 1:])
    if pairs:
        for (d1, o1), (d2, o2) in itertools.combinations(singles, 2):
            if o1[0] == "app" and o2[0] == "app" and o1[1] == o2[1]:
                continue
            yield d1 + "+" + d2, build(apply([o1, o2]))


def target_sites(node, path=()):
    """expression positions INSIDE assignment targets (the receiver of a field access, an index): gen_c04.sites skips
    targets because they cannot be replaced by arbitrary expressions, but they can be parenthesised"""
    if isinstance(node, list):
        for i, x in enumerate(node):
            yield from target_sites(x, path + (i,))
        return
    if not isinstance(node, tuple) or not node:
        return
    k = node[0] if isinstance(node[0], str) else None
    ti = 1 if k == 'assign' else 2 if k == 'aug' else None
    if ti is not None and isinstance(node[ti], tuple) and node[ti][0] in ('field', 'index') and len(node[ti]) == 3:
        tgt = node[ti]
        for j in (1, 2):
            if isinstance(tgt[j], tuple):
                yield from gen_c04.sites(tgt[j], path + (ti, j))
    for i, x in enumerate(node):
        if isinstance(x, (tuple, list)) and not (gen_c04.is_expr(node)):
            yield from target_sites(x, path + (i,))


def paren_variants(prog):
    for path, e, role in itertools.chain(gen_c04.sites(prog), target_sites(prog)):
        if e[0] in ("range", "raw"):
            continue
        # the arguments a class passes to its parent are identifiers / literals in the grammar, not expressions
        anc, in_parent = prog, False
        for i in path:
            if isinstance(anc, tuple) and anc and anc[0] == 'class' and i == 3:
                in_parent = True
            anc = anc[i]
        if in_parent:
            continue
        yield "parens@%s" % "/".join(map(str, path)), to_mamba(gen_c04.replace(prog, path, ('paren', e)))


def cases(tier, seed):
    quick = tier == "quick"
    n = 0
    progs = []
    for fam in "FAOHKTRE":
        fam_cases = list(gen_prog.FAMILIES[fam]("quick"))
        step = {"E": 80, "R": 50, "K": 10, "F": 8, "A": 16, "H": 8, "O": 1, "T": 2}[fam] if quick else {"E": 12, "R": 10, "K": 2, "F": 2, "A": 3, "H": 2, "O": 1, "T": 1}[fam]
        progs += fam_cases[::step]
    for case in progs:
        src = to_mamba(case["prog"])
        if src.count("\n") > (14 if quick else 22):
            continue
        n += 1
        yield {"id": "c14-p%d" % n, "family": "c14.pool." + case["family"].split(".")[0], "src": src, "prog": case["prog"], "pairs": (not quick) and src.count("\n") <= 6,
               "tags": ["base:" + case["id"]]}
    # constructs the generated pool does not contain: literals that span lines, doc strings, condition blocks
    extra = [
        ("multiline-string", 'def s := "ab\ncd"\nprint(s)\ndef a := 1\ndef t := "x{a}\ny"\nprint(t)\n'),
        ("docstrings", '"""module\n\ndoc\n"""\nclass C\n    """class\n    doc\n    """\n    def m(self) -> Int =>\n        """\n        method doc\n        """\n        200\nprint(C().m())\n'),
        ("type-conditions", 'class K\n    def a: Int := 20\ntype Small: K when\n    self.a > 10\n    self.a < 200\ntype Tiny: K when self.a < 2\nprint(1)\n'),
        ("nested-blocks", 'def f(n: Int) -> Int =>\n    if n > 0 then\n        for i in 0 .. n do\n            print(i)\n        n\n    else\n        0\nprint(f(2))\n'),
    ]
    for name, src in extra:
        n += 1
        yield {"id": "c14-x%d" % n, "family": "c14.extra", "src": src, "prog": None, "pairs": not quick, "tags": ["extra:" + name]}
    files = sorted(corpus.files(), key=lambda ps: (ps[1].count("\n"), ps[0]))
    files = [f for f in files if f[1].strip()]
    for path, src in (files[:45] if quick else files):
        if src.count("\n") > 60:
            continue
        n += 1
        yield {"id": "c14-c%d" % n, "family": "c14.corpus", "src": src, "prog": None, "pairs": False, "tags": ["corpus:" + path]}


def trivia_kind(desc):
    return re.sub(r"@.*", "", desc.split("+")[0])


def evaluate(case, drv):
    res = {"fail": [], "nontrivial": False, "stats": {}, "key": case["src"], "evals": 0}
    base = drv.transpile1(case["src"])
    res["evals"] += 1
    if base["v"] not in ("ok", "err"):
        res["stats"]["c14.base-crash"] = 1
        return res
    bv = base["v"]
    res["stats"]["c14.base-" + bv] = 1
    fam = case["family"]

    def check(desc, text, mode):
        r = drv.transpile1(text)
        res["evals"] += 1
        kind = trivia_kind(desc)
        res["stats"]["c14.variant." + kind] = res["stats"].get("c14.variant." + kind, 0) + 1
        tags = case["tags"] + ["trivia:" + kind, "base-verdict:" + bv]
        vcase = {"id": case["id"] + ":" + desc, "family": fam, "src": case["src"], "variant": text, "desc": desc, "mode": mode, "tags": tags, "prog": None, "pairs": False, "single": True}
        if r["v"] != bv:
            msg = (r.get("errs") or base.get("errs") or [""])[0].split("\n")[0][:120]
            res["fail"].append({"family": fam, "kind": "verdict-changes", "detail": "%s: base %s, variant %s (%s)" % (desc, bv, r["v"], msg), "tags": tags + context_tags(case["src"], desc), "case": vcase})
            return
        if bv != "ok":
            return
        res["nontrivial"] = True
        res["stats"]["c14.compared"] = res["stats"].get("c14.compared", 0) + 1
        if mode == "bytes":
            if r["out"] != base["out"]:
                res["fail"].append({"family": fam, "kind": "output-changes", "detail": "%s: emitted Python differs" % desc, "tags": tags + context_tags(case["src"], desc), "case": vcase})
        else:
            # redundant parentheses: verdict and BEHAVIOUR must be unchanged
            try:
                same = ast.dump(ast.parse(r["out"][0])) == ast.dump(ast.parse(base["out"][0]))
            except SyntaxError:
                same = r["out"] == base["out"]
            if not same:
                from ..pyside import run_python, behaviour
                b0, b1 = behaviour(run_python(base["out"][0])), behaviour(run_python(r["out"][0]))
                if b0 != b1:
                    res["fail"].append({"family": fam, "kind": "behaviour-changes", "detail": "%s: %s vs %s" % (desc, b0, b1), "tags": tags, "case": vcase})
                else:
                    res["stats"]["c14.parens-shape-differs-behaviour-same"] = res["stats"].get("c14.parens-shape-differs-behaviour-same", 0) + 1

    if case.get("mode") == "layoutparse":
        # replay of a parser-level layout failure: parse base and variant, compare verdict and shape
        a, b = drv.parse(case["src"]), drv.parse(case["variant"])
        if a["v"] != b["v"]:
            res["fail"].append({"family": "c14.layoutparse", "kind": "verdict-changes", "detail": "%s: base %s, variant %s %s" % (case["desc"], a["v"], b["v"], b.get("msg", "")), "tags": case["tags"]})
        elif a["v"] == "ok" and a["shape"] != b["shape"]:
            res["fail"].append({"family": "c14.layoutparse", "kind": "parse-tree-changes", "detail": case["desc"], "tags": case["tags"]})
        return res
    if case.get("single"):
        check(case["desc"], case["variant"], case["mode"])
        return res
    for desc, text in variants(case["src"], pairs=case.get("pairs")):
        check(desc, text, "bytes")
    if case.get("prog") is not None:
        for desc, text in paren_variants(case["prog"]):
            check(desc, text, "ast")
    if case["id"].endswith("7"):
        res["sample"] = {"id": case["id"], "base": case["src"][:300]}
    return res


def context_tags(src, desc):
    """where the trivia landed: the statement kinds around the gap (to delimit known findings)"""
    tags = []
    m = re.search(r"@gap(\d+)", desc)
    if not m:
        return tags
    gap = int(m.group(1))
    lines = src.split("\n")
    prev = next((lines[i] for i in range(gap - 1, -1, -1) if lines[i].strip()), "")
    nxt = next((lines[i] for i in range(gap, len(lines)) if lines[i].strip()), "")
    if re.match(r"\s*def .*=>\s*$", prev):
        tags.append("gap:after-def-header")
    if re.match(r"\s*else\b", nxt):
        tags.append("gap:before-else")
    if re.search(r"=>\s*\S", prev) or re.search(r"=>\s*$", prev) or re.match(r"\s*(match\b|.*\bhandle\s*$)", prev):
        tags.append("gap:in-arms")
    if re.search(r"=>", nxt) and (len(nxt) - len(nxt.lstrip())) > 0:
        tags.append("gap:before-arm")
    return tags


def coverage(tier, agg):
    return {"distinct_nontrivial": int(agg["stats"].get("c14.compared", 0)),
            "explanation": "distinct_nontrivial = trivia variants of accepted bases whose output was compared byte for byte (variants are distinct texts by construction)"}


def direct(tier, seed, agg):
    """parser level: ALL well-formed line skeletons up to N code lines x every single trivia placement (mvdrv layoutparse)"""
    import json
    from ..pool import run_shards
    n = 16
    maxlines = 5 if tier == "quick" else 6
    tot = {"skeletons": 0, "variants": 0, "failing": 0, "rejected_bases": 0}
    for a, lines, rc, err in run_shards([["layoutparse", maxlines, i, n] for i in range(n)]):
        if rc != 0:
            yield {"machinery": "layoutparse shard %s exited %s: %s" % (a, rc, err[-300:]), "cid": "layoutparse"}
            return
        for l in lines:
            if l.startswith("S "):
                s = json.loads(l[2:])
                for k in tot:
                    tot[k] += s.get(k, 0)
            elif l.startswith("F "):
                d = json.loads(l[2:])
                tags = ["trivia:" + re.sub(r"@.*", "", d.get("trivia", "")), "layoutparse"]
                case = {"id": "layoutparse", "family": "c14.layoutparse", "mode": "layoutparse", "src": d["base"], "variant": d["input"], "desc": d.get("trivia", ""), "tags": tags, "prog": None, "pairs": False}
                yield {"fail": [{"family": "c14.layoutparse", "kind": d["kind"], "detail": d["detail"], "tags": tags}], "case": case, "cid": "layoutparse", "evals": 0}
    agg["extra"]["layoutparse"] = dict(tot, max_code_lines=maxlines)
    agg["stats"]["c14.compared"] += tot["variants"]
    agg["samples"].append({"layoutparse": "skeleton 'if c then / print(1) / else / def v := 2' with '    # n' inserted before 'else'"})
    yield {"evals": tot["variants"] + tot["skeletons"], "cid": "layoutparse", "stats": {"c14.layoutparse.variants": tot["variants"], "c14.layoutparse.skeletons": tot["skeletons"]}}
