//! C10: enumerate `Core` expression trees (public API), print them with the real
//! `Display`, and emit `text \t expected-s-expression` lines for the Python side,
//! which parses the text with `ast` and compares structure.
use mamba::generate::ast::node::Core;

use crate::json::esc;

#[derive(Clone, Copy, Debug, PartialEq)]
pub enum K {
    // binary
    Add, Sub, Mul, Div, FDiv, Mod, Pow, BAnd, BOr, BXOr, BLShift, BRShift,
    Eq, Neq, Le, Leq, Ge, Geq, Is, IsN, In, And, Or,
    // unary
    Not, AddU, SubU, BOneCmpl,
    // others
    Ternary, AnonFun, IsA, Sqrt, Call, CallArg, IndexItem, IndexRange, Prop, ENumK,
}

pub const BINARY: [K; 23] = [
    K::Add, K::Sub, K::Mul, K::Div, K::FDiv, K::Mod, K::Pow, K::BAnd, K::BOr, K::BXOr, K::BLShift, K::BRShift,
    K::Eq, K::Neq, K::Le, K::Leq, K::Ge, K::Geq, K::Is, K::IsN, K::In, K::And, K::Or,
];
pub const UNARY: [K; 4] = [K::Not, K::AddU, K::SubU, K::BOneCmpl];

impl K {
    pub fn slots(self) -> usize {
        match self {
            k if BINARY.contains(&k) => 2,
            K::Ternary => 3,
            K::IsA => 2,
            K::ENumK => 0,
            _ => 1,
        }
    }
    pub fn name(self) -> String {
        format!("{self:?}")
    }
}

/// All node kinds that can appear as a (compound) node.
pub fn all_kinds() -> Vec<K> {
    let mut v: Vec<K> = BINARY.to_vec();
    v.extend(UNARY);
    v.extend([K::Ternary, K::AnonFun, K::IsA, K::Sqrt, K::Call, K::CallArg, K::IndexItem, K::IndexRange, K::Prop, K::ENumK]);
    v
}

/// One representative per Python precedence class (for the full products).
pub fn representatives() -> Vec<K> {
    vec![
        K::Or, K::And, K::Not, K::Le, K::Eq, K::Is, K::In, K::BOr, K::BXOr, K::BAnd, K::BLShift, K::Add, K::Sub, K::Mul, K::Div, K::Mod,
        K::SubU, K::Pow, K::Ternary, K::AnonFun, K::Call, K::IndexItem, K::Prop,
    ]
}

#[derive(Clone, Debug)]
pub enum T {
    Leaf(&'static str),
    Int(&'static str),
    Node(K, Vec<T>),
}

fn b(c: Core) -> Box<Core> {
    Box::new(c)
}

fn id(s: &str) -> Core {
    Core::Id { lit: s.to_string() }
}

pub fn to_core(t: &T) -> Core {
    match t {
        T::Leaf(s) => id(s),
        T::Int(s) => Core::Int { int: s.to_string() },
        T::Node(k, ch) => {
            let c = |i: usize| to_core(&ch[i]);
            match k {
                K::Add => Core::Add { left: b(c(0)), right: b(c(1)) },
                K::Sub => Core::Sub { left: b(c(0)), right: b(c(1)) },
                K::Mul => Core::Mul { left: b(c(0)), right: b(c(1)) },
                K::Div => Core::Div { left: b(c(0)), right: b(c(1)) },
                K::FDiv => Core::FDiv { left: b(c(0)), right: b(c(1)) },
                K::Mod => Core::Mod { left: b(c(0)), right: b(c(1)) },
                K::Pow => Core::Pow { left: b(c(0)), right: b(c(1)) },
                K::BAnd => Core::BAnd { left: b(c(0)), right: b(c(1)) },
                K::BOr => Core::BOr { left: b(c(0)), right: b(c(1)) },
                K::BXOr => Core::BXOr { left: b(c(0)), right: b(c(1)) },
                K::BLShift => Core::BLShift { left: b(c(0)), right: b(c(1)) },
                K::BRShift => Core::BRShift { left: b(c(0)), right: b(c(1)) },
                K::Eq => Core::Eq { left: b(c(0)), right: b(c(1)) },
                K::Neq => Core::Neq { left: b(c(0)), right: b(c(1)) },
                K::Le => Core::Le { left: b(c(0)), right: b(c(1)) },
                K::Leq => Core::Leq { left: b(c(0)), right: b(c(1)) },
                K::Ge => Core::Ge { left: b(c(0)), right: b(c(1)) },
                K::Geq => Core::Geq { left: b(c(0)), right: b(c(1)) },
                K::Is => Core::Is { left: b(c(0)), right: b(c(1)) },
                K::IsN => Core::IsN { left: b(c(0)), right: b(c(1)) },
                K::In => Core::In { left: b(c(0)), right: b(c(1)) },
                K::And => Core::And { left: b(c(0)), right: b(c(1)) },
                K::Or => Core::Or { left: b(c(0)), right: b(c(1)) },
                K::Not => Core::Not { expr: b(c(0)) },
                K::AddU => Core::AddU { expr: b(c(0)) },
                K::SubU => Core::SubU { expr: b(c(0)) },
                K::BOneCmpl => Core::BOneCmpl { expr: b(c(0)) },
                K::Ternary => Core::Ternary { cond: b(c(0)), then: b(c(1)), el: b(c(2)) },
                K::AnonFun => Core::AnonFun { args: vec![], body: b(c(0)) },
                K::IsA => Core::IsA { left: b(c(0)), right: b(c(1)) },
                K::Sqrt => Core::Sqrt { expr: b(c(0)) },
                K::Call => Core::FunctionCall { function: b(c(0)), args: vec![id("x")] },
                K::CallArg => Core::FunctionCall { function: b(id("f")), args: vec![c(0), id("y")] },
                K::IndexItem => Core::Index { item: b(c(0)), range: b(id("i")) },
                K::IndexRange => Core::Index { item: b(id("v")), range: b(c(0)) },
                K::Prop => Core::PropertyCall { object: b(c(0)), property: b(id("p")) },
                K::ENumK => Core::ENum { num: "2".to_string(), exp: "3".to_string() },
            }
        }
    }
}

fn py_binop(k: K) -> Option<&'static str> {
    Some(match k {
        K::Add => "Add", K::Sub => "Sub", K::Mul => "Mult", K::Div => "Div", K::FDiv => "FloorDiv", K::Mod => "Mod",
        K::Pow => "Pow", K::BAnd => "BitAnd", K::BOr => "BitOr", K::BXOr => "BitXor", K::BLShift => "LShift",
        K::BRShift => "RShift",
        _ => return None,
    })
}

fn py_cmp(k: K) -> Option<&'static str> {
    Some(match k {
        K::Eq => "Eq", K::Neq => "NotEq", K::Le => "Lt", K::Leq => "LtE", K::Ge => "Gt", K::Geq => "GtE",
        K::Is => "Is", K::IsN => "IsNot", K::In => "In",
        _ => return None,
    })
}

/// Expected s-expression, in the format of mv/pyside.py::sexpr (BoolOps flattened).
pub fn sexpr(t: &T) -> String {
    match t {
        T::Leaf(s) => s.to_string(),
        T::Int(s) => s.to_string(),
        T::Node(k, ch) => {
            let c = |i: usize| sexpr(&ch[i]);
            if let Some(op) = py_binop(*k) {
                return format!("({op} {} {})", c(0), c(1));
            }
            if let Some(op) = py_cmp(*k) {
                return format!("(Compare {} {op} {})", c(0), c(1));
            }
            match k {
                K::And | K::Or => {
                    let name = if *k == K::And { "And" } else { "Or" };
                    let mut parts = vec![];
                    flatten(t, *k, &mut parts);
                    format!("({name} {})", parts.join(" "))
                }
                K::Not => format!("(Not {})", c(0)),
                K::AddU => format!("(UAdd {})", c(0)),
                K::SubU => format!("(USub {})", c(0)),
                K::BOneCmpl => format!("(Invert {})", c(0)),
                K::Ternary => format!("(IfExp {} {} {})", c(0), c(1), c(2)),
                K::AnonFun => format!("(Lambda {})", c(0)),
                K::IsA => format!("(Call isinstance {} {})", c(0), c(1)),
                K::Sqrt => format!("(Call (Attr math sqrt) {})", c(0)),
                K::Call => format!("(Call {} x)", c(0)),
                K::CallArg => format!("(Call f {} y)", c(0)),
                K::IndexItem => format!("(Index {} i)", c(0)),
                K::IndexRange => format!("(Index v {})", c(0)),
                K::Prop => format!("(Attr {} p)", c(0)),
                K::ENumK => String::from("(Mult 2 (Pow 10 3))"),
                _ => unreachable!(),
            }
        }
    }
}

fn flatten(t: &T, k: K, out: &mut Vec<String>) {
    match t {
        T::Node(kk, ch) if *kk == k => {
            flatten(&ch[0], k, out);
            flatten(&ch[1], k, out);
        }
        _ => out.push(sexpr(t)),
    }
}

const LEAVES: [&str; 3] = ["a", "b", "c"];

fn leaf_for(slot: usize) -> T {
    T::Leaf(LEAVES[slot % 3])
}

/// node of kind k whose slot `s` holds `child`, other slots hold leaves.
fn with_child(k: K, s: usize, child: T) -> T {
    let n = k.slots();
    let mut ch = vec![];
    for i in 0..n {
        if i == s {
            ch.push(child.clone());
        } else {
            ch.push(leaf_for(i));
        }
    }
    T::Node(k, ch)
}

fn leaf_node(k: K, int: bool) -> T {
    let n = k.slots();
    T::Node(k, (0..n).map(|i| if int && i == 0 && k != K::Prop { T::Int("1") } else { leaf_for(i) }).collect())
}

fn tags(t: &T) -> String {
    // parent:slot:child chain along the first compound child of every level
    fn go(t: &T, out: &mut Vec<String>) {
        if let T::Node(k, ch) = t {
            for (i, c) in ch.iter().enumerate() {
                if let T::Node(ck, _) = c {
                    out.push(format!("{}/{}/{}", k.name(), i, ck.name()));
                    go(c, out);
                }
            }
        }
    }
    let mut v = vec![];
    go(t, &mut v);
    v.join(",")
}

struct Out {
    index: u64,
    shard: u64,
    of: u64,
    emitted: u64,
}

impl Out {
    fn emit(&mut self, fam: &str, t: &T) {
        let mine = self.index % self.of == self.shard;
        self.index += 1;
        if !mine {
            return;
        }
        self.emitted += 1;
        let core = to_core(t);
        let text = format!("{core}");
        println!("T {{\"i\":{},\"fam\":{},\"text\":{},\"want\":{},\"tags\":{}}}", self.index - 1, esc(fam), esc(text.trim_end()), esc(&sexpr(t)), esc(&tags(t)));
    }
}

impl Out {
    fn emit_wrapped(&mut self, fam: &str, t: &T, how: u8) {
        let mine = self.index % self.of == self.shard;
        self.index += 1;
        if !mine {
            return;
        }
        self.emitted += 1;
        let inner = to_core(t);
        let x = Box::new(Core::Id { lit: "x".to_string() });
        let core = match how {
            0 => Core::VarDef { var: x, ty: None, expr: Some(Box::new(inner)) },
            1 => Core::Assign { left: x, right: Box::new(inner), op: mamba::generate::ast::node::CoreOp::Assign },
            _ => Core::Return { expr: Box::new(inner) },
        };
        let text = format!("{core}");
        println!("T {{\"i\":{},\"fam\":{},\"text\":{},\"want\":{},\"tags\":{}}}", self.index - 1, esc(fam), esc(text.trim_end()), esc(&sexpr(t)), esc(&tags(t)));
    }
}

pub fn run(args: &[String]) {
    let mode = args.first().map(|s| s.as_str()).unwrap_or("quick");
    let shard: u64 = args.get(1).and_then(|s| s.parse().ok()).unwrap_or(0);
    let of: u64 = args.get(2).and_then(|s| s.parse().ok()).unwrap_or(1).max(1);
    let mut out = Out { index: 0, shard, of, emitted: 0 };
    let kinds = all_kinds();
    let reps = representatives();

    // depth 1-2: every kind over leaves (identifier and integer literal)
    for k in &kinds {
        out.emit("d2.leaves", &leaf_node(*k, false));
        if k.slots() > 0 {
            out.emit("d2.leaves", &leaf_node(*k, true));
        }
    }
    // depth 3, complete for one compound child: every (parent, slot, child)
    for p in &kinds {
        for s in 0..p.slots() {
            for c in &kinds {
                out.emit("d3.spine", &with_child(*p, s, leaf_node(*c, false)));
            }
        }
    }
    // depth 3, both operands compound: all binary parents x all pairs of kinds
    for p in BINARY.iter() {
        for c1 in &kinds {
            for c2 in &kinds {
                let t = T::Node(*p, vec![leaf_node(*c1, false), leaf_node(*c2, false)]);
                out.emit("d3.both", &t);
                // the same tree as the right-hand side of the statements that embed expressions
                out.emit_wrapped("d3.both.vardef", &t, 0);
                out.emit_wrapped("d3.both.assign", &t, 1);
                out.emit_wrapped("d3.both.return", &t, 2);
            }
        }
    }
    // ternary with all three slots compound over the representatives
    for c0 in &reps {
        for c1 in &reps {
            for c2 in &reps {
                let t = T::Node(K::Ternary, vec![leaf_node(*c0, false), leaf_node(*c1, false), leaf_node(*c2, false)]);
                out.emit("d3.ternary", &t);
            }
        }
    }
    // depth 4 spines: complete over (parent, slot, child, slot, grandchild)
    for p in &kinds {
        for s in 0..p.slots() {
            for c in &kinds {
                for s2 in 0..c.slots() {
                    for g in &kinds {
                        if mode == "quick" && !(reps.contains(p) && reps.contains(c) && reps.contains(g)) {
                            continue;
                        }
                        let t = with_child(*p, s, with_child(*c, s2, leaf_node(*g, false)));
                        out.emit("d4.spine", &t);
                    }
                }
            }
        }
    }
    if mode == "thorough" {
        // depth 4 full products over the representatives of binary shape: p(c1(g1, g2), c2(g3, g4)) is too large;
        // take p(c1(g1,_), c2(_,g2)) : the two inner operands adjacent to the parent operator
        let breps: Vec<K> = reps.iter().cloned().filter(|k| k.slots() == 2).collect();
        for p in &breps {
            for c1 in &breps {
                for c2 in &breps {
                    for g1 in &reps {
                        for g2 in &reps {
                            let l = T::Node(*c1, vec![leaf_for(0), leaf_node(*g1, false)]);
                            let r = T::Node(*c2, vec![leaf_node(*g2, false), leaf_for(1)]);
                            out.emit("d4.inner", &T::Node(*p, vec![l, r]));
                        }
                    }
                }
            }
        }
        // depth 5 spines over the representatives
        for p in &reps {
            for s in 0..p.slots() {
                for c in &reps {
                    for s2 in 0..c.slots() {
                        for g in &reps {
                            for s3 in 0..g.slots() {
                                for h in &reps {
                                    let t = with_child(*p, s, with_child(*c, s2, with_child(*g, s3, leaf_node(*h, false))));
                                    out.emit("d5.spine", &t);
                                }
                            }
                        }
                    }
                }
            }
        }
    }
    println!("S {{\"space\":{},\"emitted\":{}}}", out.index, out.emitted);
}

// ---------------------------------------------------------------------------
// End-to-end from Mamba source: parse with the real parser, convert with the
// real generator (no type check: ASTTy::from(&AST)), print; the expectation is
// the s-expression of the tree the *parser* built, desugared as documented.

use mamba::check::ast::ASTTy;
use mamba::parse::ast::{Node, AST};

fn bool_flat(ast: &AST, is_or: bool, out: &mut Vec<String>) -> Option<()> {
    match &ast.node {
        Node::Or { left, right } | Node::Question { left, right } if is_or => {
            bool_flat(left, true, out)?;
            bool_flat(right, true, out)?;
        }
        Node::And { left, right } if !is_or => {
            bool_flat(left, false, out)?;
            bool_flat(right, false, out)?;
        }
        _ => out.push(ast_sexpr(ast)?),
    }
    Some(())
}

fn py_name(s: &str) -> String {
    match s {
        "Int" => "int", "Float" => "float", "Str" => "str", "Bool" => "bool", "List" => "list", "Set" => "set",
        other => other,
    }
    .to_string()
}

pub fn ast_sexpr(ast: &AST) -> Option<String> {
    let s = |a: &AST| ast_sexpr(a);
    let bin = |op: &str, l: &AST, r: &AST| -> Option<String> { Some(format!("({op} {} {})", s(l)?, s(r)?)) };
    let cmp = |op: &str, l: &AST, r: &AST| -> Option<String> { Some(format!("(Compare {} {op} {})", s(l)?, s(r)?)) };
    Some(match &ast.node {
        Node::Id { lit } => py_name(lit),
        Node::Int { lit } => lit.trim_start_matches('0').to_string().chars().next().map_or("0".to_string(), |_| lit.trim_start_matches('0').to_string()),
        Node::Real { lit } => {
            let f: f64 = lit.parse().ok()?;
            let r = format!("{f:?}");
            r
        }
        Node::ENum { num, exp } => format!("(Mult {} (Pow 10 {}))", num, if exp.is_empty() { "0" } else { exp }),
        Node::Str { lit, expressions } if expressions.is_empty() => format!("'{lit}'"),
        Node::Add { left, right } => bin("Add", left, right)?,
        Node::Sub { left, right } => bin("Sub", left, right)?,
        Node::Mul { left, right } => bin("Mult", left, right)?,
        Node::Div { left, right } => bin("Div", left, right)?,
        Node::FDiv { left, right } => bin("FloorDiv", left, right)?,
        Node::Mod { left, right } => bin("Mod", left, right)?,
        Node::Pow { left, right } => bin("Pow", left, right)?,
        Node::BAnd { left, right } => bin("BitAnd", left, right)?,
        Node::BOr { left, right } => bin("BitOr", left, right)?,
        Node::BXOr { left, right } => bin("BitXor", left, right)?,
        Node::BLShift { left, right } => bin("LShift", left, right)?,
        Node::BRShift { left, right } => bin("RShift", left, right)?,
        Node::Le { left, right } => cmp("Lt", left, right)?,
        Node::Leq { left, right } => cmp("LtE", left, right)?,
        Node::Ge { left, right } => cmp("Gt", left, right)?,
        Node::Geq { left, right } => cmp("GtE", left, right)?,
        Node::Eq { left, right } => cmp("Eq", left, right)?,
        Node::Neq { left, right } => cmp("NotEq", left, right)?,
        Node::Is { left, right } => cmp("Is", left, right)?,
        Node::IsN { left, right } => cmp("IsNot", left, right)?,
        Node::In { left, right } => cmp("In", left, right)?,
        Node::IsA { left, right } => format!("(Call isinstance {} {})", s(left)?, s(right)?),
        Node::IsNA { left, right } => format!("(Not (Call isinstance {} {}))", s(left)?, s(right)?),
        Node::And { .. } => {
            let mut parts = vec![];
            bool_flat(ast, false, &mut parts)?;
            format!("(And {})", parts.join(" "))
        }
        Node::Or { .. } | Node::Question { .. } => {
            let mut parts = vec![];
            bool_flat(ast, true, &mut parts)?;
            format!("(Or {})", parts.join(" "))
        }
        Node::Not { expr } => format!("(Not {})", s(expr)?),
        Node::AddU { expr } => format!("(UAdd {})", s(expr)?),
        Node::SubU { expr } => format!("(USub {})", s(expr)?),
        Node::BOneCmpl { expr } => format!("(Invert {})", s(expr)?),
        Node::Sqrt { expr } => format!("(Call (Attr math sqrt) {})", s(expr)?),
        Node::IfElse { cond, then, el: Some(el) } => format!("(IfExp {} {} {})", s(cond)?, s(then)?, s(el)?),
        Node::Range { from, to, inclusive, step } => {
            let to_s = if *inclusive { format!("(Add {} 1)", s(to)?) } else { s(to)? };
            let step_s = match step {
                Some(st) => s(st)?,
                None => "1".to_string(),
            };
            format!("(Call range {} {} {})", s(from)?, to_s, step_s)
        }
        Node::Slice { from, to, inclusive, step } => {
            let to_s = if !*inclusive { format!("(Sub {} 1)", s(to)?) } else { s(to)? };
            let step_s = match step {
                Some(st) => s(st)?,
                None => "1".to_string(),
            };
            format!("(Call slice {} {} {})", s(from)?, to_s, step_s)
        }
        Node::Index { item, range } => format!("(Index {} {})", s(item)?, s(range)?),
        Node::FunctionCall { name, args } => {
            let mut parts = vec![s(name)?];
            for a in args {
                parts.push(s(a)?);
            }
            format!("(Call {})", parts.join(" "))
        }
        Node::PropertyCall { instance, property } => apply_prop(s(instance)?, property)?,
        Node::Tuple { elements } => format!("(Tuple {})", elements.iter().map(s).collect::<Option<Vec<_>>>()?.join(" ")),
        Node::List { elements } => format!("(List {})", elements.iter().map(s).collect::<Option<Vec<_>>>()?.join(" ")),
        Node::Set { elements } => format!("(Set {})", elements.iter().map(s).collect::<Option<Vec<_>>>()?.join(" ")),
        Node::AnonFun { body, .. } => format!("(Lambda {})", s(body)?),
        _ => return None,
    })
}

fn apply_prop(inst: String, property: &AST) -> Option<String> {
    match &property.node {
        Node::Id { lit } => Some(format!("(Attr {inst} {lit})")),
        Node::FunctionCall { name, args } => {
            let n = match &name.node {
                Node::Id { lit } => lit.clone(),
                _ => return None,
            };
            let mut parts = vec![format!("(Attr {inst} {n})")];
            for a in args {
                parts.push(ast_sexpr(a)?);
            }
            Some(format!("(Call {})", parts.join(" ")))
        }
        Node::PropertyCall { instance, property } => apply_prop(apply_prop(inst, instance)?, property),
        _ => None,
    }
}

/// stdin: one Mamba expression per line.  stdout: one `J {json}` line per input.
pub fn run_source() {
    use std::io::BufRead;
    crate::serve::install_panic_hook();
    let stdin = std::io::stdin();
    for line in stdin.lock().lines() {
        let line = match line {
            Ok(l) => l,
            Err(_) => break,
        };
        let src = line.replace("\\n", "\n");
        let res = std::panic::catch_unwind(|| -> Result<(String, Option<String>), String> {
            let ast = src.parse::<AST>().map_err(|e| format!("parse: {}", e.msg))?;
            let stmt = match &ast.node {
                Node::Block { statements } if statements.len() == 1 => statements[0].clone(),
                _ => return Err("not a single statement".to_string()),
            };
            let want = match &stmt.node {
                Node::Reassign { right, .. } => ast_sexpr(right),
                Node::VariableDef { expr: Some(expr), .. } => ast_sexpr(expr),
                _ => ast_sexpr(&stmt),
            };
            let core = mamba::generate::gen(&ASTTy::from(&stmt)).map_err(|e| format!("gen: {}", e.msg))?;
            Ok((format!("{core}").trim_end().to_string(), want))
        });
        match res {
            Ok(Ok((text, Some(want)))) => println!("J {{\"src\":{},\"text\":{},\"want\":{}}}", esc(&src), esc(&text), esc(&want)),
            Ok(Ok((text, None))) => println!("J {{\"src\":{},\"text\":{},\"unsupported\":true}}", esc(&src), esc(&text)),
            Ok(Err(e)) => println!("J {{\"src\":{},\"err\":{}}}", esc(&src), esc(&e)),
            Err(_) => {
                let (loc, msg) = crate::serve::take_panic();
                println!("J {{\"src\":{},\"panic\":{}}}", esc(&src), esc(&format!("{loc}: {msg}")));
            }
        }
    }
}
