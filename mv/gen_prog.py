"""Enumerators of the executable core language M0 (families E R K F A O H).

Every generator is deterministic and yields dicts
    {"id", "family", "prog" (M0 statements), "tags"}
in simplest-first order.  `materialise` adds the Mamba text and the reference
Python text.  Nothing is sampled: a tier only selects bounds.
"""
import itertools

from .lang import (lit_int, lit_float, lit_str, lit_bool, var, to_mamba, to_ref)

INT_OPS = ['+', '-', '*', '//', 'mod', '^']
CMP_OPS = ['<', '<=', '>', '>=', '=']
FLOAT_OPS = ['+', '-', '*', '/']

# leaf values by position (variables are defined in the prelude of each program)
INT_LEAVES = [('a', 7), ('b', 2), ('c', 3), ('d', 5)]
PRELUDE_INT = [('def', n, 'Int', lit_int(v), False) for n, v in INT_LEAVES]
PRELUDE_MISC = [('def', 'p', 'Bool', lit_bool(True), False), ('def', 'q', 'Bool', lit_bool(False), False),
                ('def', 's', 'Str', lit_str("ab"), False), ('def', 't', 'Str', lit_str("c"), False),
                ('def', 'x', 'Float', lit_float("0.5"), False), ('def', 'y', 'Float', lit_float("2.0"), False)]
PRELUDE = PRELUDE_INT + PRELUDE_MISC


class Leaves:
    """hands out leaves of a type by position, cycling"""

    def __init__(self):
        self.n = {'Int': 0, 'Bool': 0, 'Str': 0, 'Float': 0}

    def take(self, ty):
        i = self.n[ty]
        self.n[ty] += 1
        if ty == 'Int':
            return var(INT_LEAVES[i % 4][0])
        if ty == 'Bool':
            return var('pq'[i % 2])
        if ty == 'Str':
            return var('st'[i % 2])
        return var('xy'[i % 2])


def shapes(ty, depth):
    """Typed operator skeletons: nested tuples (op, left, right) | ('un', op, e) | ('leaf', ty) | ('ifx', c, a, b)."""
    if depth == 0:
        yield ('leaf', ty)
        return
    yield ('leaf', ty)
    sub = lambda t: list(shapes(t, depth - 1))
    if ty == 'Int':
        for op in INT_OPS:
            for l in sub('Int'):
                for r in sub('Int'):
                    if op == '^' and r != ('leaf', 'Int'):
                        continue  # exponents stay small
                    if op == '^' and l[0] == '^':
                        continue
                    if op in ('//', 'mod') and r[0] in ('-', 'mod', '//', '*'):
                        continue  # avoid division by a possibly-zero compound
                    yield (op, l, r)
        for e in sub('Int'):
            yield ('un', '-', e)
        for c in sub('Bool'):
            if c[0] == 'leaf' or depth == 1:
                yield ('ifx', c, ('leaf', 'Int'), ('leaf', 'Int'))
    elif ty == 'Bool':
        for op in CMP_OPS:
            for l in sub('Int'):
                for r in sub('Int'):
                    yield (op, l, r)
        for op in ('and', 'or'):
            for l in sub('Bool'):
                for r in sub('Bool'):
                    yield (op, l, r)
        for e in sub('Bool'):
            yield ('un', 'not', e)
        yield ('=', ('leaf', 'Str'), ('leaf', 'Str'))
        yield ('!=', ('leaf', 'Str'), ('leaf', 'Str'))
    elif ty == 'Str':
        for l in sub('Str'):
            for r in sub('Str'):
                yield ('+', l, r)
    elif ty == 'Float':
        for op in FLOAT_OPS:
            for l in sub('Float'):
                for r in sub('Float'):
                    yield (op, l, r)
            for l in sub('Float'):
                if l[0] == 'leaf':
                    yield (op, l, ('leaf', 'Int'))
        yield ('/', ('leaf', 'Int'), ('leaf', 'Int'))


def fill(shape, leaves):
    k = shape[0]
    if k == 'leaf':
        return leaves.take(shape[1])
    if k == 'un':
        return ('un', shape[1], fill(shape[2], leaves))
    if k == 'ifx':
        return ('ifx', fill(shape[1], leaves), fill(shape[2], leaves), fill(shape[3], leaves))
    return ('bin', k, fill(shape[1], leaves), fill(shape[2], leaves))


def shape_depth(s):
    if s[0] == 'leaf':
        return 0
    return 1 + max(shape_depth(x) for x in s[1:] if isinstance(x, tuple))


def shape_tags(s, out=None, parent=None, side=None):
    out = [] if out is None else out
    if s[0] == 'leaf':
        return out
    name = s[1] if s[0] == 'un' else s[0]
    name = {'un': 'un'}.get(name, name)
    if s[0] == 'un':
        name = 'u' + s[1]
    if parent:
        out.append('op:%s/%s/%s' % (parent, side, name))
    else:
        out.append('op:' + name)
    kids = s[2:] if s[0] == 'un' else s[1:]
    for i, c in enumerate(kids):
        if isinstance(c, tuple):
            shape_tags(c, out, name, 'LRX'[i] if s[0] != 'un' else 'U')
    return out


def expr_contexts(ty, e, which):
    """program embedding expression e of type ty in an expression context"""
    P = list(PRELUDE)
    if which == 'init':
        return P + [('def', 'r', ty, e, False), ('print', var('r'))]
    if which == 'print':
        return P + [('print', e)]
    if which == 'ret':
        return P + [('fun', 'f', [], ty, [], [('expr', e)]), ('print', ('call', 'f', []))]
    if which == 'ret-stmt':
        return P + [('fun', 'f', [], ty, [], [('return', e)], 'block'), ('print', ('call', 'f', []))]
    if which == 'arg':
        return P + [('fun', 'idf', [('v', ty, None)], ty, [], [('expr', var('v'))]), ('print', ('call', 'idf', [e]))]
    if which == 'cond' and ty == 'Bool':
        return P + [('if', e, [('print', lit_str("y"))], [('print', lit_str("n"))])]
    if which == 'while' and ty == 'Bool':
        return P + [('def', 'k', 'Int', lit_int(0), False),
                    ('while', ('bin', 'and', ('paren', e), ('bin', '<', var('k'), lit_int(2))), [('aug', '+', var('k'), lit_int(1)), ('print', var('k'))])]
    if which == 'index' and ty == 'Int':
        return P + [('def', 'l', None, ('list', [lit_int(10), lit_int(20), lit_int(30)]), False),
                    ('print', ('index', var('l'), ('bin', 'mod', ('paren', e), lit_int(3))))]
    if which == 'fstr':
        return P + [('print', ('fstr', ['v=', e, '.']))]
    if which == 'field':
        return P + [('class', 'K', [], [], [('field', 'v', ty, e, False)]), ('def', 'o', None, ('new', 'K', []), False), ('print', ('field', var('o'), 'v'))]
    if which == 'tern' :
        return P + [('def', 'r', ty, ('ifx', var('p'), e, e), False), ('print', var('r'))]
    if which == 'assign':
        return P + [('def', 'r', ty, e, False), ('assign', var('r'), e), ('print', var('r'))]
    if which == 'list':
        return P + [('def', 'l', None, ('list', [e, e]), False), ('for', 'z', var('l'), [('print', var('z'))])]
    return None


ALL_CTX = ['init', 'print', 'ret', 'ret-stmt', 'arg', 'cond', 'while', 'index', 'fstr', 'field', 'tern', 'assign', 'list']


def family_E(tier):
    quick = tier == 'quick'
    n = 0
    for ty in ('Int', 'Bool', 'Str', 'Float'):
        for depth in (1, 2):
            for sh in shapes(ty, depth):
                if shape_depth(sh) != depth:
                    continue
                e = fill(sh, Leaves())
                ctxs = ALL_CTX if (depth == 1 or not quick) else ['init']
                if depth == 2 and quick and ty in ('Str',):
                    ctxs = ['init']
                for cx in ctxs:
                    prog = expr_contexts(ty, e, cx)
                    if prog is None:
                        continue
                    n += 1
                    yield {"id": "E%d" % n, "family": "E." + cx, "prog": prog, "tags": ['ctx:' + cx, 'ty:' + ty, 'depth:%d' % depth] + shape_tags(sh)}
    if not quick:
        # depth 3 on Int/Bool, initialiser context, reduced operator set at the root
        for ty in ('Int', 'Bool'):
            for sh in shapes(ty, 3):
                if shape_depth(sh) != 3:
                    continue
                root = sh[1] if sh[0] == 'un' else sh[0]
                if root not in ('-', '*', '^', '<', 'and', 'not', 'mod'):
                    continue
                # one compound child per level keeps the depth-3 space tractable
                kids = [c for c in (sh[2:] if sh[0] == 'un' else sh[1:]) if isinstance(c, tuple) and c[0] != 'leaf']
                if len(kids) > 1:
                    continue
                e = fill(sh, Leaves())
                n += 1
                yield {"id": "E%d" % n, "family": "E.init", "prog": expr_contexts(ty, e, 'init'), "tags": ['ctx:init', 'ty:' + ty, 'depth:3'] + shape_tags(sh)}
    # unparenthesised forms where Mamba's documented precedence levels differ strictly and agree with Python's
    raw = [
        ('Int', 'a + b * c', '(a + (b * c))'), ('Int', 'a * b + c', '((a * b) + c)'), ('Int', 'a - b * c', '(a - (b * c))'),
        ('Int', 'a * b - c', '((a * b) - c)'), ('Int', 'a + b ^ c', '(a + (b ** c))'), ('Int', 'a ^ b + c', '((a ** b) + c)'),
        ('Int', 'a * b ^ c', '(a * (b ** c))'), ('Int', 'a ^ b * c', '((a ** b) * c)'), ('Int', '-a * b', '((-a) * b)'),
        ('Int', '-a + b', '((-a) + b)'),
        ('Bool', 'a < b and c < d', '((a < b) and (c < d))'), ('Bool', 'a + b < c * d', '((a + b) < (c * d))'),
        ('Bool', 'a < b or c < d', '((a < b) or (c < d))'), ('Bool', 'not a < b', '(not (a < b))'),
        ('Bool', 'a + b = c + d', '((a + b) == (c + d))'),
    ]
    for ty, m, r in raw:
        for cx in ('init', 'ret', 'arg', 'cond', 'fstr'):
            prog = expr_contexts(ty, ('raw', m, r), cx)
            if prog is None:
                continue
            n += 1
            yield {"id": "E%d" % n, "family": "E.noparen." + cx, "prog": prog, "tags": ['ctx:' + cx, 'ty:' + ty, 'noparen', 'src:' + m]}


# ------------------------------------------------------------------ ranges

def family_R(tier):
    quick = tier == 'quick'
    vals = [-1, 0, 1, 3] if quick else [-2, -1, 0, 1, 3, 4]
    steps = [None, 1, 2, 3] if quick else [None, 1, 2, 3, -1, -2]
    n = 0

    def forms(v, name):
        """literal, variable, compound expression with that value"""
        yield 'lit', (lit_int(v) if v >= 0 else ('paren', ('bin', '-', lit_int(0), lit_int(-v)))), []
        yield 'var', var(name), [('def', name, 'Int', (lit_int(v) if v >= 0 else ('bin', '-', lit_int(0), lit_int(-v))), False)]
        yield 'cmp', ('bin', '-', lit_int(v + 5), lit_int(5)), []

    for a in vals:
        for b in vals:
            for incl in (False, True):
                for st in steps:
                    if st is not None and st < 0 and not (a > b):
                        continue
                    for (fa, ea, pa), (fb, eb, pb) in itertools.product(list(forms(a, 'lo')), list(forms(b, 'hi'))):
                        if quick and fa != fb:
                            continue
                        step_forms = [(None, None, [])] if st is None else [(f, e, p) for f, e, p in forms(st, 'stp') if (not quick) or f == fa or f == 'lit']
                        for fs, es, ps in step_forms:
                            if st is not None and st < 0 and fs == 'lit':
                                es = ('paren', ('bin', '-', lit_int(0), lit_int(-st)))
                            n += 1
                            rng = ('range', ea, eb, incl, es)
                            prog = pa + pb + ps + [('for', 'i', rng, [('print', var('i'))]), ('print', lit_str("end"))]
                            yield {"id": "R%d" % n, "family": "R.for", "prog": prog,
                                   "tags": ['range:' + ('incl' if incl else 'excl'), 'step:%s' % st, 'from:' + fa, 'to:' + fb, 'stepform:%s' % fs]}
    # ranges as values / inside functions / with compound bounds that need grouping
    extra = [
        [('def', 'r', None, ('range', lit_int(0), lit_int(2), True, None), False), ('for', 'i', var('r'), [('print', var('i'))])],
        [('def', 'r', None, ('range', lit_int(0), lit_int(5), False, lit_int(2)), False), ('for', 'i', var('r'), [('print', var('i'))])],
        [('def', 'n', 'Int', lit_int(3), False), ('for', 'i', ('range', lit_int(0), ('bin', '*', var('n'), lit_int(2)), True, None), [('print', var('i'))])],
        [('def', 'n', 'Int', lit_int(3), False), ('for', 'i', ('range', ('bin', '-', var('n'), lit_int(1)), ('bin', '+', var('n'), lit_int(1)), True, None), [('print', var('i'))])],
        [('def', 'n', 'Int', lit_int(6), False), ('for', 'i', ('range', lit_int(0), ('bin', 'mod', var('n'), lit_int(4)), True, None), [('print', var('i'))])],
        [('fun', 'cnt', [('n', 'Int', None)], 'Int', [], [('def', 't', 'Int', lit_int(0), False), ('for', 'i', ('range', lit_int(1), var('n'), True, None), [('aug', '+', var('t'), var('i'))]), ('expr', var('t'))], 'block'),
         ('print', ('call', 'cnt', [lit_int(4)]))],
        [('for', 'i', ('range', lit_int(0), lit_int(2), True, None), [('for', 'j', ('range', var('i'), lit_int(2), False, None), [('print', ('bin', '+', ('bin', '*', var('i'), lit_int(10)), var('j')))])])],
    ]
    for prog in extra:
        n += 1
        yield {"id": "R%d" % n, "family": "R.misc", "prog": prog, "tags": ['range:misc']}


# ------------------------------------------------------------ control flow

def tracer(label):
    return ('print', lit_str(label))


def cf_shapes(depth, label, env):
    """control-flow statement skeletons of nesting depth <= `depth` with tracer prints at the head of every block.
    env: loop counters in use (for fresh names)."""
    yield [tracer(label)]
    if depth == 0:
        return
    inner = list(cf_shapes(depth - 1, label + '.', env + 1))
    k = 'k%d' % env
    for cond_name, cond in (('T', ('bin', '<', var('one'), var('two'))), ('F', ('bin', '>', var('one'), var('two')))):
        for body in inner:
            yield [tracer(label + 'if' + cond_name), ('if', cond, [tracer(label + 'then')] + body, None)]
            for body2 in (inner[:2] if depth > 1 else inner):
                yield [('if', cond, [tracer(label + 'then')] + body, [tracer(label + 'else')] + body2)]
    for sel in (1, 2, 9):
        for body in inner:
            yield [('def', 'm' + str(env), 'Int', lit_int(sel), False),
                   ('match', var('m' + str(env)), [(lit_int(1), [tracer(label + 'm1')] + body), (lit_int(2), [tracer(label + 'm2')]), ('_', [tracer(label + 'm_')] + (body if sel == 9 else []))])]
    for body in inner:
        yield [('def', k, 'Int', lit_int(0), False), ('while', ('bin', '<', var(k), lit_int(2)), [('aug', '+', var(k), lit_int(1)), tracer(label + 'w')] + body)]
        yield [('for', 'f' + str(env), ('range', lit_int(0), lit_int(2), False, None), [tracer(label + 'for')] + body)]
        yield [('for', 'g' + str(env), ('list', [lit_int(5), lit_int(6)]), [('print', var('g' + str(env)))] + body)]


def family_K(tier):
    depth = 2 if tier == 'quick' else 3
    n = 0
    pre = [('def', 'one', 'Int', lit_int(1), False), ('def', 'two', 'Int', lit_int(2), False)]
    seen = 0
    for body in cf_shapes(depth, 'L', 0):
        seen += 1
        if tier == 'quick' and depth == 2 and seen % 3 != 1 and seen > 60:
            pass
        n += 1
        yield {"id": "K%d" % n, "family": "K.top", "prog": pre + body + [tracer('end')], "tags": ['cf']}
    # the same skeletons (depth-1 less) inside a function and a method
    for body in cf_shapes(depth - 1, 'L', 0):
        n += 1
        yield {"id": "K%d" % n, "family": "K.fun", "prog": pre + [('fun', 'run', [], None, [], body + [tracer('ret')], 'block'), ('expr', ('call', 'run', []))], "tags": ['cf', 'in:function']}
        n += 1
        yield {"id": "K%d" % n, "family": "K.method", "prog": pre + [('class', 'Kc', [], [], [('fun', 'run', [], None, [], body + [tracer('ret')], 'block')]), ('def', 'o', None, ('new', 'Kc', []), False), ('expr', ('mcall', var('o'), 'run', []))], "tags": ['cf', 'in:method']}


# ------------------------------------------------- functions / implicit return

RET_TYPES = [
    ('Int', lambda i: lit_int([4, 5, 6][i % 3])),
    ('Str', lambda i: lit_str(['u', 'v', 'w'][i % 3])),
    ('Bool', lambda i: lit_bool(i % 2 == 0)),
    ('Float', lambda i: lit_float(['1.5', '2.5', '3.5'][i % 3])),
    ('Int?', lambda i: [lit_int(4), ('none',), lit_int(6)][i % 3]),
    ('Str?', lambda i: [('none',), lit_str('v'), ('none',)][i % 3]),
]


def fun_bodies(val):
    """(name, body, needs arg)  body shapes of `def f(n: Int) -> T`, val(i) gives the i-th value expression"""
    c = ('bin', '>', var('n'), lit_int(0))
    yield 'expr', [('expr', val(0))]
    yield 'block-expr', [('print', lit_str("in")), ('expr', val(0))]
    yield 'return', [('return', val(0))]
    yield 'block-return', [('print', lit_str("in")), ('return', val(0))]
    yield 'ternary', [('expr', ('ifx', c, val(0), val(1)))]
    yield 'if-else-expr', [('if', c, [('expr', val(0))], [('expr', val(1))])]
    yield 'if-else-block', [('if', c, [('print', lit_str("pos")), ('expr', val(0))], [('print', lit_str("neg")), ('expr', val(1))])]
    yield 'if-else-return', [('if', c, [('return', val(0))], [('return', val(1))])]
    yield 'if-ret-else-expr', [('if', c, [('return', val(0))], [('expr', val(1))])]
    yield 'if-expr-else-ret', [('if', c, [('expr', val(0))], [('return', val(1))])]
    yield 'early-return', [('if', c, [('return', val(0))], None), ('expr', val(1))]
    yield 'match', [('match', var('n'), [(lit_int(1), [('expr', val(0))]), (lit_int(2), [('expr', val(1))]), ('_', [('expr', val(2))])])]
    yield 'match-block', [('match', var('n'), [(lit_int(1), [('print', lit_str("one")), ('expr', val(0))]), ('_', [('expr', val(2))])])]
    yield 'if-in-match', [('match', var('n'), [(lit_int(1), [('if', c, [('expr', val(0))], [('expr', val(1))])]), ('_', [('expr', val(2))])])]
    yield 'match-in-if', [('if', c, [('match', var('n'), [(lit_int(1), [('expr', val(0))]), ('_', [('expr', val(1))])])], [('expr', val(2))])]
    yield 'nested-if', [('if', c, [('if', ('bin', '>', var('n'), lit_int(1)), [('expr', val(0))], [('expr', val(1))])], [('expr', val(2))])]
    yield 'local-then-expr', [('def', 'loc', None, val(0), False), ('expr', var('loc'))]
    yield 'loop-then-expr', [('for', 'i', ('range', lit_int(0), lit_int(2), False, None), [('print', var('i'))]), ('expr', val(0))]
    yield 'while-return', [('def', 'k', 'Int', lit_int(0), False), ('while', ('bin', '<', var('k'), lit_int(5)), [('aug', '+', var('k'), lit_int(1)), ('if', ('bin', '>', var('k'), var('n')), [('return', val(0))], None)]), ('expr', val(1))]


def family_F(tier):
    n = 0
    args = [-1, 0, 1, 2, 3]
    for tname, val in RET_TYPES:
        for bname, body in fun_bodies(val):
            if tier == 'quick' and tname in ('Bool', 'Float', 'Str?') and bname not in ('expr', 'block-expr', 'ternary', 'if-else-block', 'match'):
                continue
            calls = [('print', ('call', 'f', [lit_int(a) if a >= 0 else ('bin', '-', lit_int(0), lit_int(-a))])) for a in args]
            n += 1
            yield {"id": "F%d" % n, "family": "F.fun", "prog": [('fun', 'f', [('n', 'Int', None)], tname, [], body, 'block')] + calls,
                   "tags": ['body:' + bname, 'ret:' + tname, 'in:function']}
            n += 1
            yield {"id": "F%d" % n, "family": "F.method",
                   "prog": [('class', 'M', [], [], [('fun', 'f', [('n', 'Int', None)], tname, [], body, 'block')]), ('def', 'o', None, ('new', 'M', []), False)] +
                           [('print', ('mcall', var('o'), 'f', [lit_int(a) if a >= 0 else ('bin', '-', lit_int(0), lit_int(-a))])) for a in args],
                   "tags": ['body:' + bname, 'ret:' + tname, 'in:method']}
    # no declared return type: the value of the last expression is NOT returned
    for bname, body in list(fun_bodies(RET_TYPES[0][1]))[:2]:
        n += 1
        yield {"id": "F%d" % n, "family": "F.noret", "prog": [('fun', 'f', [('n', 'Int', None)], None, [], [('print', lit_str("called"))], 'block'), ('expr', ('call', 'f', [lit_int(1)]))],
               "tags": ['body:' + bname, 'ret:none']}
    # defaults / positional
    n += 1
    yield {"id": "F%d" % n, "family": "F.defaults", "prog": [
        ('fun', 'g', [('u', 'Int', None), ('v', 'Int', lit_int(10)), ('w', 'Int', lit_int(100))], 'Int', [], [('expr', ('bin', '+', ('bin', '+', var('u'), var('v')), var('w')))]),
        ('print', ('call', 'g', [lit_int(1)])), ('print', ('call', 'g', [lit_int(1), lit_int(2)])), ('print', ('call', 'g', [lit_int(1), lit_int(2), lit_int(3)]))],
        "tags": ['defaults']}
    # recursion, function calling function, class-typed and nullable returns
    n += 1
    yield {"id": "F%d" % n, "family": "F.rec", "prog": [
        ('fun', 'fact', [('n', 'Int', None)], 'Int', [], [('if', ('bin', '<=', var('n'), lit_int(1)), [('expr', lit_int(1))], [('expr', ('bin', '*', var('n'), ('call', 'fact', [('bin', '-', var('n'), lit_int(1))])))])], 'block'),
        ('print', ('call', 'fact', [lit_int(5)]))], "tags": ['recursion']}
    n += 1
    yield {"id": "F%d" % n, "family": "F.class-ret", "prog": [
        ('class', 'P', [('v', 'Int', True)], [], []),
        ('fun', 'mk', [('n', 'Int', None)], 'P', [], [('expr', ('new', 'P', [('bin', '+', var('n'), lit_int(1))]))]),
        ('print', ('field', ('call', 'mk', [lit_int(4)]), 'v'))], "tags": ['ret:class']}
    n += 1
    yield {"id": "F%d" % n, "family": "F.nullable-ret", "prog": [
        ('fun', 'mb', [('n', 'Int', None)], 'Int?', [], [('if', ('bin', '>', var('n'), lit_int(0)), [('expr', var('n'))], [('expr', ('none',))])], 'block'),
        ('print', ('call', 'mb', [lit_int(3)])), ('print', ('call', 'mb', [lit_int(0)]))], "tags": ['ret:nullable']}


# ------------------------------------------- assignment from control flow (A)

def family_A(tier):
    n = 0
    for tname, val in (RET_TYPES[:2] + RET_TYPES[4:]) if tier == 'quick' else RET_TYPES:
        for sel in (0, 1, 2, 5):
            c = ('bin', '>', var('n'), lit_int(0))
            progs = {
                'defif-line': [('def', 'r', tname, ('ifx', c, val(0), val(1)), False)],
                'defif-block': [('defif', 'r', tname, c, [('print', lit_str("then")), ('expr', val(0))], [('print', lit_str("else")), ('expr', val(1))])],
                'defif-nested': [('defif', 'r', tname, c, [('if', ('bin', '>', var('n'), lit_int(1)), [('expr', val(0))], [('expr', val(2))])], [('expr', val(1))])],
                'defmatch': [('defmatch', 'r', tname, var('n'), [(lit_int(1), [('expr', val(0))]), (lit_int(2), [('print', lit_str("two")), ('expr', val(1))]), ('_', [('expr', val(2))])])],
                'defmatch-if': [('defmatch', 'r', tname, var('n'), [(lit_int(1), [('if', c, [('expr', val(0))], [('expr', val(1))])]), ('_', [('expr', val(2))])])],
                'reassign-if': [('def', 'r', tname, val(2), False), ('assign', var('r'), ('ifx', c, val(0), val(1)))],
                'defmatch-ifx': [('defmatch', 'r', tname, var('n'), [(lit_int(1), [('expr', ('ifx', c, val(0), val(1)))]), ('_', [('print', lit_str("other")), ('expr', ('ifx', c, val(2), val(0)))])])],
                'defmatch-line-ifx': [('defmatch', 'r', tname, var('n'), [(lit_int(1), [('expr', ('ifx', c, val(0), val(1)))], 'line'), (lit_int(2), [('expr', val(1))], 'line'), ('_', [('expr', ('ifx', c, val(2), val(0)))], 'line')])],
                'defif-block-ifx': [('defif', 'r', tname, c, [('print', lit_str("then")), ('expr', ('ifx', ('bin', '>', var('n'), lit_int(1)), val(0), val(2)))], [('expr', val(1))])],
                'defif-noty': [('defif', 'r', None, c, [('print', lit_str("then")), ('expr', val(0))], [('expr', val(1))])],
            }
            for pname, body in progs.items():
                n += 1
                yield {"id": "A%d" % n, "family": "A.top", "prog": [('def', 'n', 'Int', lit_int(sel), False)] + body + [('print', var('r'))],
                       "tags": ['assign:' + pname, 'ty:' + tname]}
                n += 1
                yield {"id": "A%d" % n, "family": "A.fun", "prog": [('fun', 'h', [('n', 'Int', None)], tname, [], body + [('expr', var('r'))], 'block'), ('print', ('call', 'h', [lit_int(sel)]))],
                       "tags": ['assign:' + pname, 'ty:' + tname, 'in:function']}
                if sel == 0:
                    # the same definition executed repeatedly: a branch that fails to assign keeps the previous value
                    n += 1
                    yield {"id": "A%d" % n, "family": "A.loop", "prog": [('for', 'n', ('list', [lit_int(1), lit_int(0), lit_int(2), lit_int(5), lit_int(1)]), body + [('print', var('r'))])],
                           "tags": ['assign:' + pname, 'ty:' + tname, 'in:loop']}


    # the value of a branch / arm is a handle expression: the handled call's value or, when it raises, the arm's
    risky = ('fun', 'risky', [('k', 'Int', None)], 'Int', ['E1'], [('if', ('bin', '>', var('k'), lit_int(2)), [('raise', ('new', 'E1', [lit_str("big")]))], None), ('expr', ('bin', '+', var('k'), lit_int(1)))], 'block')
    h = lambda arg: ('handle', ('expr', ('call', 'risky', [arg])), [('err', 'E1', [('expr', lit_int(7))])])
    hl = lambda arg: ('handle', ('expr', ('call', 'risky', [arg])), [('err', 'E1', [('expr', lit_int(7))], 'line')])
    for sel in (0, 1, 5):
        shapes = {
            'defif-handle-then': [('defif', 'r', 'Int', ('bin', '>', var('n'), lit_int(0)), [h(var('v'))], [('expr', lit_int(1))])],
            'defif-handle-else': [('defif', 'r', 'Int', ('bin', '>', var('n'), lit_int(0)), [('expr', lit_int(1))], [hl(var('v'))])],
            'defif-handle-both': [('defif', 'r', 'Int', ('bin', '>', var('n'), lit_int(0)), [('print', lit_str("t")), h(var('v'))], [h(lit_int(9))])],
            'defmatch-handle': [('defmatch', 'r', 'Int', var('n'), [(lit_int(1), [h(var('v'))]), ('_', [('expr', lit_int(2))])])],
        }
        for v in (1, 5):
            for pname, body in shapes.items():
                n += 1
                yield {"id": "A%d" % n, "family": "A.handle", "prog": EXC_DECLS[:1] + [risky, ('fun', 'pick', [('n', 'Int', None), ('v', 'Int', None)], 'Int', [], body + [('expr', ('bin', '*', var('r'), lit_int(10)))], 'block'),
                                                                                   ('print', ('call', 'pick', [lit_int(sel), lit_int(v)]))],
                       "tags": ['assign:' + pname, 'ty:Int', 'in:function', 'tail:handle']}
                n += 1
                yield {"id": "A%d" % n, "family": "A.handle", "prog": EXC_DECLS[:1] + [risky, ('def', 'n', 'Int', lit_int(sel), False), ('def', 'v', 'Int', lit_int(v), False)] + body + [('print', var('r'))],
                       "tags": ['assign:' + pname, 'ty:Int', 'tail:handle']}


# ---------------------------------------------------------------- classes (O)

def family_O(tier):
    n = 0
    I = lambda v: lit_int(v)

    def emit(name, prog, tags):
        nonlocal n
        n += 1
        return {"id": "O%d" % n, "family": "O." + name, "prog": prog, "tags": ['class'] + tags}

    # class arguments with / without def, body fields, methods reading and updating fields
    for a_def in (True, False):
        for b_kind in ('def', 'plain', 'none'):
            cargs = [('a', 'Int', a_def)] + ([('b', 'Int', b_kind == 'def')] if b_kind != 'none' else [])
            members = [('field', 'c', 'Int', I(3), False)]
            reads = [x for x, _, d in cargs if d] + ['c']
            sum_e = var('zero')
            body_e = I(0)
            for r in reads:
                body_e = ('bin', '+', body_e, ('field', var('self'), r))
            members.append(('fun', 'total', [], 'Int', [], [('expr', body_e)]))
            if a_def:
                members.append(('fun', 'bump', [('by', 'Int', None)], None, [], [('assign', ('field', var('self'), 'a'), ('bin', '+', ('field', var('self'), 'a'), var('by')))], 'block'))
            ctor = [I(1)] + ([I(2)] if b_kind != 'none' else [])
            prog = [('class', 'C', cargs, [], members), ('def', 'o', None, ('new', 'C', ctor), False), ('print', ('mcall', var('o'), 'total', []))]
            if a_def:
                prog += [('expr', ('mcall', var('o'), 'bump', [I(10)])), ('print', ('mcall', var('o'), 'total', [])), ('print', ('field', var('o'), 'a')),
                         ('assign', ('field', var('o'), 'a'), I(50)), ('print', ('field', var('o'), 'a'))]
            prog += [('assign', ('field', var('o'), 'c'), I(7)), ('print', ('field', var('o'), 'c')), ('print', ('mcall', var('o'), 'total', []))]
            yield emit('args', prog, ['a:' + ('def' if a_def else 'plain'), 'b:' + b_kind])
    # two instances do not share fields
    yield emit('two-instances', [('class', 'C', [('a', 'Int', True)], [], [('field', 'c', 'Int', I(3), False)]),
                                 ('def', 'o1', None, ('new', 'C', [I(1)]), False), ('def', 'o2', None, ('new', 'C', [I(2)]), False),
                                 ('assign', ('field', var('o1'), 'c'), I(9)), ('assign', ('field', var('o1'), 'a'), I(8)),
                                 ('print', ('field', var('o1'), 'c')), ('print', ('field', var('o2'), 'c')), ('print', ('field', var('o1'), 'a')), ('print', ('field', var('o2'), 'a'))], [])
    # explicit __init__
    yield emit('init', [('class', 'C', [], [], [('field', 'v', 'Int', None, False),
                                                  ('init', [('n', 'Int', None)], [('assign', ('field', var('self'), 'v'), ('bin', '*', var('n'), I(2)))]),
                                                  ('fun', 'get', [], 'Int', [], [('expr', ('field', var('self'), 'v'))])]),
                        ('def', 'o', None, ('new', 'C', [I(21)]), False), ('print', ('mcall', var('o'), 'get', []))], ['explicit-init'])
    # explicit __init__ x {one line, block, two statements} x {no parent, parent without arguments, parent with a
    # literal argument, exception parent}: parents are initialised first, then the constructor body runs
    for form in ('line', 'block', 'two'):
        for parent in ('none', 'plain', 'lit', 'exception'):
            ibody = [('assign', ('field', var('self'), 'w'), var('k'))]
            if form == 'two':
                ibody.append(('assign', ('field', var('self'), 'w'), ('bin', '+', ('field', var('self'), 'w'), I(1))))
            init = ('init', [('k', 'Int', None)], ibody) + (('line',) if form == 'line' else ())
            pre, parents, uses = [], [], []
            if parent == 'plain':
                pre = [('class', 'Base', [], [], [('field', 'v', 'Int', I(3), False), ('fun', 'get', [], 'Int', [], [('expr', ('field', var('self'), 'v'))])])]
                parents = [('Base', None)]
                uses = [('print', ('mcall', var('o'), 'get', []))]
            elif parent == 'lit':
                pre = [('class', 'Base', [('x', 'Str', True)], [], [])]
                parents = [('Base', [lit_str("fixed")])]
                uses = [('print', ('field', var('o'), 'x'))]
            elif parent == 'exception':
                parents = [('Exception', None)]
            prog = pre + [('class', 'Ch', [], parents, [('field', 'w', 'Int', I(0), False), init, ('fun', 'both', [], 'Int', [], [('expr', ('bin', '*', ('field', var('self'), 'w'), I(2)))])]),
                          ('def', 'o', None, ('new', 'Ch', [I(5)]), False), ('print', ('mcall', var('o'), 'both', [])), ('print', ('field', var('o'), 'w'))] + uses + \
                   [('assign', ('field', var('o'), 'w'), I(9)), ('print', ('mcall', var('o'), 'both', []))]
            yield emit('init-parent', prog, ['explicit-init', 'init:' + form, 'parent:' + parent])
    # a field of class type: reads and updates through two field accesses, from outside and from a method
    yield emit('nested-field', [('class', 'In', [('v', 'Int', True)], [], [('fun', 'get', [], 'Int', [], [('expr', ('field', var('self'), 'v'))])]),
                                ('class', 'Out', [('i', 'In', True)], [], [
                                    ('fun', 'bump', [], None, [], [('assign', ('field', ('field', var('self'), 'i'), 'v'), ('bin', '+', ('field', ('field', var('self'), 'i'), 'v'), I(1)))], 'block'),
                                    ('fun', 'peek', [], 'Int', [], [('expr', ('mcall', ('field', var('self'), 'i'), 'get', []))])]),
                                ('def', 'o', None, ('new', 'Out', [('new', 'In', [I(4)])]), False), ('assign', ('field', ('field', var('o'), 'i'), 'v'), I(5)),
                                ('expr', ('mcall', var('o'), 'bump', [])), ('print', ('field', ('field', var('o'), 'i'), 'v')), ('print', ('mcall', ('field', var('o'), 'i'), 'get', [])),
                                ('print', ('mcall', var('o'), 'peek', []))], ['nested-field'])
    # parent with arguments; child def field; override; inherited call
    for child_def in (True, False):
        prog = [('class', 'P', [('x', 'Int', True)], [], [('fun', 'px', [], 'Int', [], [('expr', ('field', var('self'), 'x'))]), ('fun', 'who', [], 'Str', [], [('expr', lit_str("P"))])]),
                ('class', 'Q', [('y', 'Int', child_def), ('z', 'Int', False)], [('P', [var('z')])],
                 [('fun', 'who', [], 'Str', [], [('expr', lit_str("Q"))])] + ([('fun', 'qy', [], 'Int', [], [('expr', ('field', var('self'), 'y'))])] if child_def else [])),
                ('def', 'o', None, ('new', 'Q', [I(5), I(6)]), False), ('print', ('mcall', var('o'), 'px', [])), ('print', ('mcall', var('o'), 'who', [])), ('print', ('field', var('o'), 'x'))]
        if child_def:
            prog += [('print', ('mcall', var('o'), 'qy', [])), ('print', ('field', var('o'), 'y'))]
        yield emit('parent', prog, ['child-def-arg:%s' % child_def])
    # parent with literal argument and no child arguments
    yield emit('parent-lit', [('class', 'P', [('x', 'Str', True)], [], []), ('class', 'Q', [], [('P', [lit_str("fixed")])], []),
                              ('def', 'o', None, ('new', 'Q', []), False), ('print', ('field', var('o'), 'x'))], [])
    # two parents
    for pname, cname, m_lines, p_lines in inheritance_matrix():
        yield emit('inherit-no-args', [('rawstmt', m_lines, p_lines)], ['parent:' + pname, 'child:' + cname])
    yield emit('two-parents', [('class', 'P1', [], [], [('fun', 'f1', [], 'Int', [], [('expr', I(1))])]), ('class', 'P2', [], [], [('fun', 'f2', [], 'Int', [], [('expr', I(2))])]),
                               ('class', 'Q', [], [('P1', None), ('P2', None)], [('fun', 'both', [], 'Int', [], [('expr', ('bin', '+', ('mcall', var('self'), 'f1', []), ('mcall', var('self'), 'f2', [])))])]),
                               ('def', 'o', None, ('new', 'Q', []), False), ('print', ('mcall', var('o'), 'both', [])), ('print', ('mcall', var('o'), 'f1', []))], [])
    # method calling method, method with default, method returning self-typed value, field of class type
    yield emit('compose', [('class', 'V', [('a', 'Int', True)], [], [
        ('fun', 'twice', [], 'Int', [], [('expr', ('bin', '*', ('field', var('self'), 'a'), I(2)))]),
        ('fun', 'quad', [], 'Int', [], [('expr', ('bin', '*', ('mcall', var('self'), 'twice', []), I(2)))]),
        ('fun', 'add', [('d', 'Int', I(1))], 'Int', [], [('expr', ('bin', '+', ('field', var('self'), 'a'), var('d')))]),
        ('fun', 'plus', [('o', 'V', None)], 'V', [], [('expr', ('new', 'V', [('bin', '+', ('field', var('self'), 'a'), ('field', var('o'), 'a'))]))])]),
        ('def', 'v', None, ('new', 'V', [I(3)]), False), ('print', ('mcall', var('v'), 'quad', [])), ('print', ('mcall', var('v'), 'add', [])), ('print', ('mcall', var('v'), 'add', [I(5)])),
        ('print', ('field', ('mcall', var('v'), 'plus', [('new', 'V', [I(4)])]), 'a'))], ['sig:own-class'])
    # operator definitions
    yield emit('operators', [('class', 'W', [('a', 'Int', True)], [], [
        ('fun', '+', [('other', 'W', None)], 'W', [], [('expr', ('new', 'W', [('bin', '+', ('field', var('self'), 'a'), ('field', var('other'), 'a'))]))]),
        ('fun', '=', [('other', 'W', None)], 'Bool', [], [('expr', ('bin', '=', ('field', var('self'), 'a'), ('field', var('other'), 'a')))]),
        ('fun', '<', [('other', 'W', None)], 'Bool', [], [('expr', ('bin', '<', ('field', var('self'), 'a'), ('field', var('other'), 'a')))])]),
        ('def', 'w1', None, ('new', 'W', [I(1)]), False), ('def', 'w2', None, ('new', 'W', [I(2)]), False),
        ('def', 'w3', 'W', ('bin', '+', var('w1'), var('w2')), False), ('print', ('field', var('w3'), 'a')),
        ('def', 'e', 'Bool', ('bin', '=', var('w1'), var('w2')), False), ('print', var('e')),
        ('def', 'l', 'Bool', ('bin', '<', var('w1'), var('w2')), False), ('print', var('l'))], ['operator-def', 'sig:own-class'])
    # control flow inside methods that update fields
    yield emit('method-cf', [('class', 'Acc', [], [], [('field', 'n', 'Int', I(0), False),
                                                         ('fun', 'feed', [('v', 'Int', None)], None, [], [
                                                             ('if', ('bin', '>', var('v'), I(0)), [('assign', ('field', var('self'), 'n'), ('bin', '+', ('field', var('self'), 'n'), var('v')))],
                                                              [('assign', ('field', var('self'), 'n'), I(0))])], 'block')]),
                             ('def', 'acc', None, ('new', 'Acc', []), False), ('expr', ('mcall', var('acc'), 'feed', [I(3)])), ('expr', ('mcall', var('acc'), 'feed', [I(4)])), ('print', ('field', var('acc'), 'n')),
                             ('expr', ('mcall', var('acc'), 'feed', [('bin', '-', I(0), I(1))])), ('print', ('field', var('acc'), 'n'))], [])


# ------------------------------------------------------------ raise/handle (H)

EXC_DECLS = [('class', 'E1', [('msg', 'Str', False)], [('Exception', [var('msg')])], []),
             ('class', 'E2', [('msg', 'Str', False)], [('E1', [var('msg')])], []),
             ('class', 'E3', [('msg', 'Str', False)], [('Exception', [var('msg')])], [])]


def inheritance_matrix():
    """child constructor kind x what the construction of a parent listed WITHOUT arguments does (each with its reference Python)"""
    parents = {
        # name: (mamba lines, python lines, what to observe on an instance `o`: (mamba expr, python expr))
        "init-assigns-and-prints": (["class Pa", "    def count: Int := 0", "    def __init__(self) =>", "        self.count := 10", '        print("Pa ready")', "    def get(self) -> Int => self.count"],
                                    ["class Pa:", "    def __init__(self):", "        self.count = 10", '        print("Pa ready")', "    def get(self):", "        return self.count"], ("o.get()", "o.get()")),
        "grandparent-with-arguments": (["class Gp(def tag: Str)", "    def show(self) -> Str => self.tag", 'class Pa: Gp("mid")', "    def twice(self) -> Str => self.tag + self.tag"],
                                       ["class Gp:", "    def __init__(self, tag):", "        self.tag = tag", "    def show(self):", "        return self.tag", "class Pa(Gp):", "    def __init__(self):", '        Gp.__init__(self, "mid")',
                                        "    def twice(self):", "        return self.tag + self.tag"], ("o.twice()", "o.twice()")),
        "class-argument-with-default": (["class Pa(def k: Int := 5)", "    def get(self) -> Int => self.k"],
                                        ["class Pa:", "    def __init__(self, k=5):", "        self.k = k", "    def get(self):", "        return self.k"], ("o.get()", "o.get()")),
    }
    children = {
        "no-own-constructor": (["class Ch: Pa", "    def own(self) -> Int => 1", "def o := Ch()"], ["class Ch(Pa):", "    def own(self):", "        return 1", "o = Ch()"]),
        "class-arguments": (["class Ch(def y: Int): Pa", "    def own(self) -> Int => self.y", "def o := Ch(3)"],
                            ["class Ch(Pa):", "    def __init__(self, y):", "        Pa.__init__(self)", "        self.y = y", "    def own(self):", "        return self.y", "o = Ch(3)"]),
        "explicit-init": (["class Ch: Pa", "    def y: Int", "    def __init__(self, y: Int) =>", "        self.y := y", "    def own(self) -> Int => self.y", "def o := Ch(3)"],
                          ["class Ch(Pa):", "    def __init__(self, y):", "        Pa.__init__(self)", "        self.y = y", "    def own(self):", "        return self.y", "o = Ch(3)"]),
        "second-parent-with-arguments": (["class Ot(def w: Int)", "class Ch(def y: Int): Pa, Ot(y)", "    def own(self) -> Int => self.y + self.w", "def o := Ch(3)"],
                                         ["class Ot:", "    def __init__(self, w):", "        self.w = w", "class Ch(Pa, Ot):", "    def __init__(self, y):", "        Pa.__init__(self)", "        Ot.__init__(self, y)", "        self.y = y",
                                          "    def own(self):", "        return self.y + self.w", "o = Ch(3)"]),
    }
    for pname, (pm, pp, (om, op)) in parents.items():
        for cname, (cm, cp) in children.items():
            yield pname, cname, pm + cm + ["print(o.own())", "print(%s)" % om], pp + cp + ["print(o.own())", "print(%s)" % op]


def family_H(tier):
    n = 0

    def emit(name, prog, tags):
        nonlocal n
        n += 1
        return {"id": "H%d" % n, "family": "H." + name, "prog": EXC_DECLS + prog, "tags": ['handle'] + tags}

    raiser = ('fun', 'risky', [('n', 'Int', None)], 'Int', ['E1', 'E3'], [
        ('if', ('bin', '=', var('n'), lit_int(1)), [('raise', ('new', 'E1', [lit_str("one")]))], None),
        ('if', ('bin', '=', var('n'), lit_int(2)), [('raise', ('new', 'E2', [lit_str("two")]))], None),
        ('if', ('bin', '=', var('n'), lit_int(3)), [('raise', ('new', 'E3', [lit_str("three")]))], None),
        ('expr', ('bin', '*', var('n'), lit_int(10)))], 'block')
    arm_sets = [
        [('e', 'E1', 1), ('e', 'E3', 3)], [('e', 'E3', 3), ('e', 'E1', 1)], [('e', 'E2', 2), ('e', 'E1', 1), ('e', 'E3', 3)],
        [('e', 'E1', 1), ('e', 'E2', 2), ('e', 'E3', 3)], [('e', 'Exception', 9)],
    ]
    for ai, arms in enumerate(arm_sets):
        for sel in (0, 1, 2, 3):
            m_arms = [(v, c, [('print', lit_str("caught " + c)), ('expr', lit_int(-k))]) for v, c, k in arms]
            # as initialiser
            yield emit('init', [raiser, ('handle', ('def', 'r', 'Int', ('call', 'risky', [lit_int(sel)]), False), m_arms), ('print', var('r'))], ['arms:%d' % ai, 'sel:%d' % sel, 'pos:init'])
            # as statement
            s_arms = [(v, c, [('print', lit_str("caught " + c))]) for v, c, k in arms]
            yield emit('stmt', [raiser, ('handle', ('expr', ('call', 'risky', [lit_int(sel)])), s_arms), ('print', lit_str("after"))], ['arms:%d' % ai, 'sel:%d' % sel, 'pos:stmt'])
            # inside a function, as last expression (value returned), arms with value
            yield emit('fun-last', [raiser, ('fun', 'safe', [('n', 'Int', None)], 'Int', [], [('handle', ('expr', ('call', 'risky', [var('n')])), m_arms)], 'block'),
                                    ('print', ('call', 'safe', [lit_int(sel)]))], ['arms:%d' % ai, 'sel:%d' % sel, 'pos:fun-last'])
            # arm returns
            r_arms = [(v, c, [('return', lit_int(-k))]) for v, c, k in arms]
            yield emit('fun-arm-return', [raiser, ('fun', 'safe', [('n', 'Int', None)], 'Int', [], [('handle', ('def', 'r', 'Int', ('call', 'risky', [var('n')]), False), r_arms), ('expr', ('bin', '+', var('r'), lit_int(1)))], 'block'),
                                          ('print', ('call', 'safe', [lit_int(sel)]))], ['arms:%d' % ai, 'sel:%d' % sel, 'pos:fun-arm-return'])
    # arm whose value is itself a one-line if-expression
    for sel in (0, 1, 3):
        x_arms = [(v, c, [('expr', ('ifx', ('bin', '>', var('big'), lit_int(0)), lit_int(-k), lit_int(-k - 10)))]) for v, c, k in arm_sets[0]]
        yield emit('init-ifx-arm', [raiser, ('def', 'big', 'Int', lit_int(1), False), ('handle', ('def', 'r', 'Int', ('call', 'risky', [lit_int(sel)]), False), x_arms), ('print', var('r'))], ['sel:%d' % sel, 'pos:init', 'arm:ifx'])
        l_arms = [(v, c, b, 'line') for v, c, b in x_arms]
        yield emit('init-ifx-arm-line', [raiser, ('def', 'big', 'Int', lit_int(1), False), ('handle', ('def', 'r', 'Int', ('call', 'risky', [lit_int(sel)]), False), l_arms), ('print', var('r'))], ['sel:%d' % sel, 'pos:init', 'arm:ifx', 'arm:line'])
    # exception escapes a declaring function and reaches top level / an outer handle
    for sel in (0, 1, 3):
        yield emit('escape', [raiser, ('fun', 'mid', [('n', 'Int', None)], 'Int', ['E1', 'E3'], [('expr', ('bin', '+', ('call', 'risky', [var('n')]), lit_int(1)))]),
                              ('handle', ('def', 'r', 'Int', ('call', 'mid', [lit_int(sel)]), False), [('e', 'E1', [('expr', lit_int(-1))]), ('e', 'E3', [('expr', lit_int(-3))])]), ('print', var('r'))], ['sel:%d' % sel, 'pos:escape'])
        yield emit('nested', [raiser, ('fun', 'inner', [('n', 'Int', None)], 'Int', ['E3'], [('handle', ('expr', ('call', 'risky', [var('n')])), [('e', 'E1', [('print', lit_str("inner E1")), ('expr', lit_int(-1))])])], 'block'),
                              ('handle', ('def', 'r', 'Int', ('call', 'inner', [lit_int(sel)]), False), [('e', 'E3', [('print', lit_str("outer E3")), ('expr', lit_int(-3))])]), ('print', var('r'))], ['sel:%d' % sel, 'pos:nested'])
    # raise inside a method; handle around a method call
    for sel in (0, 1):
        yield emit('method', [('class', 'Box', [('v', 'Int', True)], [], [('fun', 'take', [('n', 'Int', None)], 'Int', ['E1'], [
            ('if', ('bin', '>', var('n'), ('field', var('self'), 'v')), [('raise', ('new', 'E1', [lit_str("too much")]))], None), ('expr', ('bin', '-', ('field', var('self'), 'v'), var('n')))], 'block')]),
            ('def', 'b', None, ('new', 'Box', [lit_int(5)]), False),
            ('handle', ('def', 'r', 'Int', ('mcall', var('b'), 'take', [lit_int(3 + 5 * sel)]), False), [('e', 'E1', [('print', lit_str("refused")), ('expr', lit_int(0))])]), ('print', var('r'))], ['sel:%d' % sel, 'pos:method'])
    # uncaught at top level: the class of the uncaught exception is the behaviour
    yield emit('uncaught', [raiser, ('print', lit_str("before")), ('handle', ('expr', ('call', 'risky', [lit_int(3)])), [('e', 'E1', [('print', lit_str("caught E1"))])]), ('print', lit_str("after"))], ['pos:uncaught'])


# ------------------------------------------------------- collections / tuples (T)

def family_T(tier):
    n = 0
    I = lit_int

    def emit(name, prog, tags):
        nonlocal n
        n += 1
        return {"id": "T%d" % n, "family": "T." + name, "prog": prog, "tags": ['collection'] + tags}

    for (t1, v1, use1), (t2, v2, use2) in [(("Int", I(5), lambda x: ('bin', '-', x, I(1))), ("Int", I(2), lambda x: ('bin', '*', x, I(3)))),
                                           (("Str", lit_str("x"), lambda x: ('bin', '+', x, lit_str("!"))), ("Int", I(2), lambda x: ('bin', '+', x, I(1)))),
                                           (("Int", I(4), lambda x: ('bin', '+', x, I(1))), ("Str", lit_str("y"), lambda x: ('bin', '+', x, lit_str("?"))))]:
        tt = "(%s, %s)" % (t1, t2)
        prog = [('fun', 'f', [('t', tt, None)], None, [], [('deftup', ['a', 'b'], var('t')), ('def', 'ra', t1, use1(var('a')), False), ('def', 'rb', t2, use2(var('b')), False),
                                                            ('print', var('ra')), ('print', var('rb'))], 'block'),
                ('def', 'u', tt, ('tuple', [v1, v2]), False), ('expr', ('call', 'f', [var('u')])), ('expr', ('call', 'f', [('tuple', [v1, v2])]))]
        yield emit('tuple-param', prog, ['tuple:%s,%s' % (t1, t2)])
        prog = [('fun', 'mk', [], tt, [], [('expr', ('tuple', [v1, v2]))]), ('deftup', ['a', 'b'], ('call', 'mk', [])),
                ('def', 'ra', t1, use1(var('a')), False), ('def', 'rb', t2, use2(var('b')), False), ('print', var('ra')), ('print', var('rb'))]
        yield emit('tuple-return', prog, ['tuple:%s,%s' % (t1, t2)])
    yield emit('tuple3-param', [('fun', 'g', [('t', '(Int, Str, Int)', None)], 'Int', [], [('deftup', ['a', 'b', 'c'], var('t')), ('print', ('bin', '+', var('b'), lit_str("."))), ('expr', ('bin', '+', var('a'), var('c')))], 'block'),
                               ('print', ('call', 'g', [('tuple', [I(1), lit_str("m"), I(2)])]))], ['tuple:3'])
    for coll, lit in (("List", 'list'), ("Set", 'set')):
        yield emit('sum-' + lit, [('fun', 'total', [('l', coll + '[Int]', None)], 'Int', [], [('def', 't', 'Int', I(0), False), ('for', 'i', var('l'), [('aug', '+', var('t'), var('i'))]), ('expr', var('t'))], 'block'),
                                  ('print', ('call', 'total', [(lit, [I(1), I(2), I(3)])])), ('def', 'xs', coll + '[Int]', (lit, [I(4), I(5)]), False), ('print', ('call', 'total', [var('xs')]))], ['coll:' + coll])
        yield emit('str-' + lit, [('def', 'ws', coll + '[Str]', (lit, [lit_str("a")]), False), ('for', 'w', var('ws'), [('print', ('bin', '+', var('w'), lit_str("!")))])], ['coll:' + coll])
        yield emit('in-' + lit, [('def', 'xs', None, (lit, [I(1), I(2)]), False), ('print', ('in', I(1), var('xs'))), ('print', ('in', I(7), var('xs')))], ['coll:' + coll])
    yield emit('list-index', [('def', 'l', 'List[Int]', ('list', [I(4), I(5), I(6)]), False), ('print', ('bin', '+', ('index', var('l'), I(1)), I(1))),
                              ('def', 'k', 'Int', I(2), False), ('print', ('index', var('l'), var('k')))], ['coll:List'])
    yield emit('list-of-class', [('class', 'Pt', [('v', 'Int', True)], [], [('fun', 'dbl', [], 'Int', [], [('expr', ('bin', '*', ('field', var('self'), 'v'), I(2)))])]),
                                 ('def', 'ps', 'List[Pt]', ('list', [('new', 'Pt', [I(1)]), ('new', 'Pt', [I(2)])]), False),
                                 ('for', 'p', var('ps'), [('print', ('mcall', var('p'), 'dbl', [])), ('print', ('field', var('p'), 'v'))])], ['coll:List'])
    yield emit('list-arg-method', [('class', 'Bag', [], [], [('fun', 'count', [('l', 'List[Str]', None)], 'Int', [], [('def', 'c', 'Int', I(0), False), ('for', 'x', var('l'), [('aug', '+', var('c'), I(1))]), ('expr', var('c'))], 'block')]),
                                   ('def', 'b', None, ('new', 'Bag', []), False), ('print', ('mcall', var('b'), 'count', [('list', [lit_str("a"), lit_str("b")])]))], ['coll:List'])
    yield emit('tuple-in-list', [('def', 'ps', None, ('list', [('tuple', [I(1), lit_str("a")]), ('tuple', [I(2), lit_str("b")])]), False),
                                 ('for', 'p', var('ps'), [('deftup', ['n', 's'], var('p')), ('print', ('bin', '+', var('n'), I(1))), ('print', ('bin', '+', var('s'), lit_str("!")))])], ['coll:List', 'tuple'])


# ------------------------------------------------ nullable default, isa, in, is (Q)

def family_Q(tier):
    n = 0
    I = lit_int

    def emit(name, prog, tags):
        nonlocal n
        n += 1
        return {"id": "Q%d" % n, "family": "Q." + name, "prog": prog, "tags": ['misc-op'] + tags}

    # `x ? d`: the value of x unless it is None - also for values Python treats as false
    holders = [("Int", I(0), I(5)), ("Int", I(3), I(5)), ("Int", ('none',), I(5)), ("Str", lit_str(""), lit_str("d")), ("Str", lit_str("v"), lit_str("d")), ("Str", ('none',), lit_str("d")),
               ("Bool", lit_bool(False), lit_bool(True)), ("Bool", ('none',), lit_bool(True)), ("Float", lit_float("0.0"), lit_float("1.5"))]
    for ty, held, dflt in holders:
        tag = ['holds:' + ("none" if held[0] == 'none' else held[2]), 'ty:' + ty]
        yield emit('default-init', [('def', 'nv', ty + '?', held, False), ('def', 'r', ty, ('qd', var('nv'), dflt), False), ('print', var('r'))], tag)
        yield emit('default-in-function', [('fun', 'orelse', [('nv', ty + '?', None)], ty, [], [('expr', ('qd', var('nv'), dflt))]), ('print', ('call', 'orelse', [held]))], tag)
        yield emit('default-of-call', [('fun', 'give', [], ty + '?', [], [('expr', held)]), ('def', 'r', ty, ('qd', ('call', 'give', []), dflt), False), ('print', var('r'))], tag)
    # isa / isna on a class hierarchy and primitives
    cls = [('class', 'An', [], [], []), ('class', 'Dg', [], [('An', None)], []), ('class', 'Ct', [], [], [])]
    for obj, cn in itertools.product(["An", "Dg", "Ct"], ["An", "Dg", "Ct"]):
        yield emit('isa', cls + [('def', 'o', None, ('new', obj, []), False), ('def', 'r', 'Bool', ('isa', var('o'), cn), False), ('print', var('r')),
                                 ('if', ('isa', var('o'), cn), [('print', lit_str("yes"))], [('print', lit_str("no"))])], ['isa:%s/%s' % (obj, cn)])
        yield emit('isna', cls + [('def', 'o', None, ('new', obj, []), False), ('def', 'r', 'Bool', ('isna', var('o'), cn), False), ('print', var('r'))], ['isna:%s/%s' % (obj, cn)])
    # in / is / isnt
    for v in (1, 4):
        yield emit('in-list', [('def', 'l', None, ('list', [I(1), I(2), I(3)]), False), ('def', 'r', 'Bool', ('in', I(v), var('l')), False), ('print', var('r')),
                               ('if', ('in', I(v), var('l')), [('print', lit_str("in"))], [('print', lit_str("out"))])], ['in'])
        yield emit('in-range', [('def', 'r', 'Bool', ('in', I(v), ('paren', ('range', I(0), I(3), True, None))), False), ('print', var('r'))], ['in', 'range'])
    yield emit('is-none', [('def', 'nv', 'Int?', ('none',), False), ('def', 'a', 'Bool', ('is', var('nv'), ('none',)), False), ('print', var('a')),
                           ('def', 'mv', 'Int?', I(1), False), ('def', 'b', 'Bool', ('isnt', var('mv'), ('none',)), False), ('print', var('b'))], ['is'])
    # string building, nested calls, while with compound condition, accumulators
    yield emit('accumulate', [('def', 's', 'Str', lit_str(""), False), ('def', 'k', 'Int', I(0), False),
                              ('while', ('bin', 'and', ('bin', '<', var('k'), I(3)), ('bin', '!=', var('s'), lit_str("aaa"))), [('assign', var('s'), ('bin', '+', var('s'), lit_str("a"))), ('aug', '+', var('k'), I(1)), ('print', var('s'))]),
                              ('print', var('k'))], ['while-compound'])
    yield emit('nested-calls', [('fun', 'inc', [('x', 'Int', None)], 'Int', [], [('expr', ('bin', '+', var('x'), I(1)))]), ('fun', 'dbl', [('x', 'Int', None)], 'Int', [], [('expr', ('bin', '*', var('x'), I(2)))]),
                                ('print', ('call', 'inc', [('call', 'dbl', [('call', 'inc', [I(1)])])])), ('print', ('call', 'dbl', [('bin', '+', ('call', 'inc', [I(1)]), ('call', 'dbl', [I(2)]))]))], ['nested-calls'])
    yield emit('aug-ops', [('def', 'x', 'Int', I(7), False), ('aug', '+', var('x'), I(2)), ('print', var('x')), ('aug', '-', var('x'), I(3)), ('print', var('x')), ('aug', '*', var('x'), I(2)), ('print', var('x')),
                           ('aug', '^', var('x'), I(2)), ('print', var('x')), ('aug', '<<', var('x'), I(1)), ('print', var('x')), ('aug', '>>', var('x'), I(2)), ('print', var('x')),
                           ('def', 'y', 'Float', lit_float("9.0"), False), ('aug', '/', var('y'), lit_float("2.0")), ('print', var('y'))], ['aug'])
    yield emit('sqrt', [('def', 'r', 'Float', ('sqrt', lit_float("16.0")), False), ('print', var('r')), ('print', ('sqrt', ('bin', '+', lit_float("9.0"), lit_float("16.0"))))], ['sqrt'])
    yield emit('shadow-in-branch', [('def', 'x', 'Int', I(1), False), ('def', 'c', 'Bool', lit_bool(True), False), ('if', var('c'), [('def', 'x', 'Int', I(2), False), ('print', var('x'))], None), ('print', var('x'))], ['shadowing'])
    yield emit('shadow-in-loop', [('def', 'x', 'Int', I(1), False), ('for', 'i', ('range', I(0), I(2), False, None), [('def', 'x', 'Int', ('bin', '+', var('i'), I(10)), False), ('print', var('x'))]), ('print', var('x'))], ['shadowing'])
    yield emit('shadow-in-function', [('def', 'x', 'Int', I(1), False), ('fun', 'g', [], 'Int', [], [('def', 'x', 'Int', I(5), False), ('expr', var('x'))], 'block'), ('print', ('call', 'g', [])), ('print', var('x'))], ['shadowing'])
    yield emit('shadow-param', [('def', 'x', 'Int', I(1), False), ('fun', 'g', [('x', 'Int', None)], 'Int', [], [('expr', ('bin', '+', var('x'), I(1)))]), ('print', ('call', 'g', [I(7)])), ('print', var('x'))], ['shadowing'])
    yield emit('shadow-same-block', [('def', 'x', 'Int', I(1), False), ('print', var('x')), ('def', 'x', 'Str', lit_str("s"), False), ('print', var('x'))], ['shadowing'])


def family_S(tier):
    """scoping bases: a definition local to every kind of block, followed by uses after the blocks (C04 renames those uses
    to each block-local name; the program itself is an ordinary member of the pool)"""
    I = lit_int
    raiser = [('class', 'SE', [('msg', 'Str', False)], [('Exception', [var('msg')])], []),
              ('fun', 'sr', [('n', 'Int', None)], 'Int', ['SE'], [('if', ('bin', '>', var('n'), I(5)), [('raise', ('new', 'SE', [lit_str("r")]))], None), ('expr', var('n'))], 'block'),
              ('fun', 'show', [('x', 'Int', None)], 'Int', [], [('expr', var('x'))])]

    def body(p):
        return [('def', 'a', 'Int', ('bin', '+', p, I(1)), False),
                ('if', ('bin', '>', p, I(5)), [('def', 'tl', 'Int', I(5), False), ('print', var('tl'))], [('def', 'el', 'Int', I(6), False), ('print', var('el'))]),
                ('if', ('bin', '>', p, I(5)), [('def', 'ol', 'Int', I(8), False), ('print', var('ol'))], None),
                ('for', 'i', ('range', I(0), I(2), False, None), [('def', 'fl', 'Int', var('i'), False), ('print', var('fl'))]),
                ('def', 'k', 'Int', I(0), False),
                ('while', ('bin', '<', var('k'), I(1)), [('aug', '+', var('k'), I(1)), ('def', 'wl', 'Int', var('k'), False), ('print', var('wl'))]),
                ('match', p, [(I(1), [('def', 'ml', 'Int', I(1), False), ('print', var('ml'))]), ('_', [('print', I(0))])]),
                ('handle', ('expr', ('call', 'sr', [p])), [('he', 'SE', [('def', 'hl', 'Int', I(9), False), ('print', var('hl'))])]),
                ('print', ('call', 'show', [var('a')])),
                ('def', 'z', 'Int', var('a'), False),
                ('print', var('z'))]

    yield {"id": "S1", "family": "S.fun-locals", "tags": ['scoping'],
           "prog": raiser + [('fun', 'g', [('p', 'Int', None)], 'Int', [], body(var('p')) + [('expr', var('a'))], 'block'), ('print', ('call', 'g', [I(1)])), ('print', ('call', 'g', [I(7)]))]}
    yield {"id": "S2", "family": "S.method-locals", "tags": ['scoping'],
           "prog": raiser + [('class', 'Sc', [], [], [('fun', 'g', [('p', 'Int', None)], 'Int', [], body(var('p')) + [('expr', var('a'))], 'block')]),
                             ('def', 'so', None, ('new', 'Sc', []), False), ('print', ('mcall', var('so'), 'g', [I(1)])), ('print', ('mcall', var('so'), 'g', [I(7)]))]}
    for pv in (1, 7):
        yield {"id": "S%d" % (2 + pv), "family": "S.top-locals", "tags": ['scoping', 'p:%d' % pv], "prog": raiser + [('def', 'p', 'Int', I(pv), False)] + body(var('p'))}


FAMILIES = {'S': family_S, 'Q': family_Q, 'T': family_T, 'E': family_E, 'R': family_R, 'K': family_K, 'F': family_F, 'A': family_A, 'O': family_O, 'H': family_H}


def materialise(case):
    prog = case.pop("prog")
    case["src"] = to_mamba(prog)
    case["ref"] = to_ref(prog)
    return case


def pool(tier, families="ERKFAOHTQS"):
    for f in families:
        for case in FAMILIES[f](tier):
            yield materialise(case)
