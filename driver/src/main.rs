//! mvdrv - the Rust side of the mamba model-checking machinery.
//! Links the real `mamba` crate built from /repo's working tree (feature `verif`).
mod coregen;
mod json;
mod layout;
mod lexcheck;
mod serve;
mod subtype;

fn main() {
    let args: Vec<String> = std::env::args().collect();
    let a = |i: usize| args.get(i).map(|s| s.as_str()).unwrap_or("");
    let n = |i: usize| -> u64 { args.get(i).and_then(|s| s.parse().ok()).unwrap_or(0) };
    match a(1) {
        "serve" => serve::serve(),
        "lexsweep" => {
            serve::install_panic_hook();
            match a(2) {
                "strings" => {
                    let alpha = lexcheck::parse_alphabet(a(3));
                    let pre = lexcheck::parse_alphabet(a(7)).concat();
                    let suf = lexcheck::parse_alphabet(a(8)).concat();
                    lexcheck::sweep_strings(&alpha, n(4) as usize, n(5), n(6).max(1), &pre, &suf);
                }
                "pairs" => lexcheck::sweep_pairs(n(3), n(4).max(1)),
                "layouts" => lexcheck::sweep_layouts(n(3) as usize, n(4), n(5).max(1)),
                _ => std::process::exit(2),
            }
        }
        "automaton" => {
            serve::install_panic_hook();
            lexcheck::automaton(n(2) as i32, n(3) as usize)
        }
        "core" => coregen::run(&args[2..]),
        "srcexpr" => coregen::run_source(),
        "layoutparse" => layout::run(&args[2..]),
        "subtype" => subtype::run(&args[2..]),
        "seedprobe" => subtype::seedprobe(&args[2..]),
        _ => {
            eprintln!("usage: mvdrv serve | lexsweep .. | automaton .. | core .. | subtype ..");
            std::process::exit(2);
        }
    }
}
