"""C09 - definite assignment: no read of a possibly undefined variable or field.

definition site x use site x optional shadowing x contexts.  Uses dominated by a
definition in the same or an enclosing block must be accepted (and then run
without NameError / UnboundLocalError / AttributeError); the property's listed
negative shapes must be rejected; 'defined in both branches, used after' is
unspecified and not judged.
"""
from .. import ctxgen, scopeseq, ctorseq
from ..pyside import run_python, went_wrong
from ..staticprop import evaluate_verdict

ID = "C09"
LEVEL = "exploration"
CHUNK = 32
RULE = ("complete product contexts x definition/use shapes (positive and negative) x shadowing; expectation by construction; accepted "
        "positives are additionally executed; distinct by source text")
ASSUMPTIONS = ["a variable defined in both branches of an if and used afterwards is unspecified by the property: not judged",
               "top-level definitions used inside function bodies and uses before a later top-level definition are separate (ordering) matters, kept out of this space"]


def payloads(tier):
    out = []

    def add(kind, pre, body, ok, tags, fault=None, run=True):
        # the faulty line is the one that READS v (a use form may start with a helper definition)
        if isinstance(fault, int) and fault + 1 < len(body) and "v" not in body[fault].replace("def w", "") and body[fault].strip().startswith("def w"):
            fault += 1
        out.append({"kind": kind, "prelude": pre, "body": body, "expect": "ok" if ok else "err", "tags": tags + (["run"] if run and ok else []), "fault": fault})

    use_forms = {"print": "print(v)", "init": "def u: Int := v", "arg": "def u: Int := idi(v)", "operand": "def u: Int := v + 1", "reassign-rhs": "def w: Int := 0\nw := v"}
    pre = ["def idi(x: Int) -> Int => x"]
    for uname, use in use_forms.items():
        u = use.split("\n")
        t = ["use:" + uname]
        # ---- positives
        add("earlier-same-block", pre, ["def v: Int := 1"] + u, True, t)
        add("earlier-enclosing-block", pre, ["def v: Int := 1", "def c := True", "if c then"] + ctxgen.indent(u), True, t)
        add("earlier-enclosing-loop", pre, ["def v: Int := 1", "for i in 0 .. 2 do"] + ctxgen.indent(u), True, t)
        add("earlier-enclosing-match", pre, ["def v: Int := 1", "def m := 1", "match m", "    1 =>"] + ctxgen.indent(u, 2) + ["    _ =>", '        print("o")'], True, t)
        add("loop-variable", pre, ["for v in 0 .. 2 do"] + ctxgen.indent(u), True, t)
        add("match-capture-in-arm", pre, ["def m := 1", "match m", "    v =>"] + ctxgen.indent(u, 2), True, t, run=False)
        add("parameter", ["def idi(x: Int) -> Int => x", "def par(v: Int) =>"] + ctxgen.indent(u), ["par(1)"], True, t)
        add("reassigned-then-used", pre, ["def v: Int := 1", "v := 2"] + u, True, t)
        add("shadow-new-type", pre, ['def v: Str := "s"', "def v: Int := 1"] + u, True, t)
        add("nested-two-levels", pre, ["def v: Int := 1", "def c := True", "if c then", "    for i in 0 .. 1 do"] + ctxgen.indent(u, 2), True, t)
        # ---- negatives
        add("never", pre, u, False, t, 0)
        add("later-same-block", pre, u + ["def v: Int := 1"], False, t, 0)
        add("then-only", pre, ["def c := True", "if c then", "    def v: Int := 1"] + u, False, t, 3)
        add("then-only-with-else", pre, ["def c := True", "if c then", "    def v: Int := 1", "else", '    print("e")'] + u, False, t, 5)
        add("earlier-match-arm-definition", pre, ["def m := 1", "match m", "    1 =>", "        def v: Int := 1", "    _ =>"] + ctxgen.indent(u, 2), False, t, 5)
        add("earlier-match-arm-capture", pre, ["def m := 1", "match m", "    v =>", '        print("first")', "    _ =>"] + ctxgen.indent(u, 2), False, t + ["faults:2"], 5)   # (an arm after a capture is refused as unreachable as well)
        add("earlier-handle-arm-definition", ["def idi(x: Int) -> Int => x", "class HE(msg: Str): Exception(msg)", "class HF(msg: Str): Exception(msg)", "def hr(n: Int) -> Int raise [HE, HF] => n"],
            ["hr(1) handle", "    he: HE =>", "        def v: Int := 1", "    hf: HF =>"] + ctxgen.indent(u, 2), False, t, 4)
        add("else-only", pre, ["def c := True", "if c then", '    print("t")', "else", "    def v: Int := 1"] + u, False, t, 5)
        add("one-match-arm", pre, ["def m := 1", "match m", "    1 =>", "        def v: Int := 1", "    _ =>", '        print("o")'] + u, False, t, 6)
        add("match-capture-outside", pre, ["def m := 1", "match m", "    v =>", '        print("in")'] + u, False, t, 4)
        add("loop-body-after-loop", pre, ["for i in 0 .. 1 do", "    def v: Int := 1"] + u, False, t, 2)
        add("loop-variable-after-loop", pre, ["for v in 0 .. 1 do", '    print("b")'] + u, False, t, 2)
        add("while-body-after-loop", pre, ["def k := 0", "while k < 1 do", "    k := k + 1", "    def v: Int := 1"] + u, False, t, 4)
        add("handle-arm-after", ["def idi(x: Int) -> Int => x", "class HE(msg: Str): Exception(msg)", "def hr(n: Int) -> Int raise [HE] => n"],
            ["hr(1) handle", "    he: HE =>", "        def v: Int := 1"] + u, False, t, 3)
        add("earlier-handle-arm-binder", ["def idi(x: Int) -> Int => x", "class HE(msg: Str): Exception(msg)", "class HF(msg: Str): Exception(msg)", "def hr(n: Int) -> Int raise [HE, HF] => n"],
            ["hr(1) handle", "    he: HE =>", '        print("h")', "    hf: HF =>", "        def hb: HE := he"], False, t, 4)
        add("handle-binder-after", ["def idi(x: Int) -> Int => x", "class HE(msg: Str): Exception(msg)", "def hr(n: Int) -> Int raise [HE] => n"],
            ["hr(1) handle", "    he: HE =>", '        print("h")', "def hb: HE := he"], False, t, 3)
        add("other-function-local", ["def idi(x: Int) -> Int => x", "def other() =>", "    def v: Int := 1", '    print("o")'], u, False, t, 0)
        add("nested-if-then-only", pre, ["def c := True", "if c then", "    if c then", "        def v: Int := 1"] + u, False, t, 4)
        add("shadow-wrong-type", pre, ["def v: Int := 1", 'def v: Str := "s"', "def u2: Int := v"], False, t, 2)
        add("comprehension-variable-outside", pre, ["def l := [cv | cv in 0 .. 3]", "def u3: Int := cv"], False, t, 1)
        # unspecified: defined in both branches
    # fields in a constructor
    for when in ("before", "after", "then-only", "nullable-before"):
        cls = ["class F", "    def a: Int" + ("?" if when == "nullable-before" else ""), "    def b: Int", "    def __init__(self) =>"]
        if when in ("before", "nullable-before"):
            # (the nullable field is only read: assigning to a nullable field is C06's finding C06-F2)
            init = ["def r := self.a", "self.a := 1", "self.b := 2"] if when == "before" else ["def r := self.a", "self.b := 2"]
            ok = when == "nullable-before"
            fault = ("prelude", 4)
        elif when == "after":
            init, ok, fault = ["self.a := 1", "self.b := self.a + 1"], True, None
        else:
            init, ok, fault = ["def c := True", "if c then", "    self.a := 1", "self.b := self.a + 1", "self.a := 3"], False, ("prelude", 7)
        add("ctor-field-read", cls + ctxgen.indent(init, 2), ["def fo := F()"], ok, ["field-read:" + when], fault if not ok else None)
    # the same rules for a field the class RE-DECLARES although a parent has one of the same name (same or another type, parent's with or without default)
    for pdecl in ("def lim: Int := 10", "def lim: Int", "def lim: Float := 1.5"):
        base = ["class RB", "    " + pdecl] + (["    def __init__(self) =>", "        self.lim := 1"] if ":=" not in pdecl else [])
        off = len(base)
        for when, init, ok in (("read-before", ["def r := self.lim", "self.lim := 20"], False), ("never-assigned", ['print("x")'], False),
                               ("then-only", ["def c := True", "if c then", "    self.lim := 1", "def r := self.lim", "self.lim := 2"], False),
                               ("assigned-then-read", ["self.lim := 20", "def r := self.lim"], True)):
            cls = base + ["class RD: RB", "    def lim: Int", "    def __init__(self) =>"] + ctxgen.indent(init, 2)
            fault = None if ok else ("prelude", off + 3 + (3 if when == "then-only" else 0 if when != "never-assigned" else -1))
            add("ctor-redeclared-field", cls, ["def rdo := RD()"], ok, ["field-read:" + when, "parent-field:" + pdecl.replace("def lim", "").strip()], fault, run=False)
    # a field read in another method before any assignment (constructor never assigns it)
    add("method-field-read", ["class G", "    def a: Int", "    def __init__(self) =>", "        self.a := 1", "    def get(self) -> Int => self.a"], ["def go := G()", "print(go.get())"], True, ["field-read:method-after-init"])
    return out


def cases(tier, seed):
    depth = 1 if tier == "quick" else 2
    yield from ctxgen.cases_for(payloads(tier), depth, "c09")
    if tier != "quick":
        # thorough: every depth-1 case also behind each independent, legal noise prefix (ctxgen.NOISE): the verdict must not change
        yield from ctxgen.cases_for(payloads(tier), 1, "c09", noise=tuple(ctxgen.NOISE), noise_only=True)
    # the scope machine: every statement sequence over {def, def fin, shadowing def, assign, typed uses, 7 block kinds} within a size bound
    yield from scopeseq.cases("C09", tier)
    # the constructor machine: every constructor body over {assign a, assign y, read a, read y, read / assign through y, if, if-else}
    yield from ctorseq.cases("C09", tier)


def evaluate(case, drv):
    res = evaluate_verdict(case, drv)
    r = res.pop("result", None)
    if case["expect"] == "ok" and r and r["v"] == "ok" and "run" in case["tags"]:
        x = run_python(r["out"][0])
        res["evals"] = 2
        w = went_wrong(x)
        if x["compile_error"]:
            res["stats"]["c09.output-uncompilable"] = 1
        elif w in ("NameError", "UnboundLocalError", "AttributeError"):
            res["fail"].append({"family": case["family"], "kind": "accepted-but-" + w, "detail": x["exc_msg"], "tags": case["tags"], "observed": r["out"][0][-500:]})
    if case["id"].endswith("111"):
        res["sample"] = {"id": case["id"], "expect": case["expect"], "mamba": case["src"]}
    return res


def coverage(tier, agg):
    return scopeseq.machine_stats("C09", tier)
