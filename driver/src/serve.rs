//! Request/response loop: the orchestrator keeps one `mvdrv serve` child per worker.
//!
//! Request  = header line (space separated) followed by blobs `<len>\n<bytes>`.
//! Response = `B <id>\n` when work on the request starts (so that a crash can be
//!            attributed), then `R <json>\n`.
use std::ffi::c_void;
use std::io::{BufRead, Write};
use std::path::PathBuf;
use std::sync::Mutex;
use std::time::Instant;

use crate::json::{arr, esc, str_arr};
use crate::lexcheck;

static PANIC_INFO: Mutex<Vec<String>> = Mutex::new(Vec::new());

extern "C" {
    fn dlsym(handle: *mut c_void, symbol: *const std::os::raw::c_char) -> *mut c_void;
}

pub fn shim_present() -> bool {
    let p = unsafe { dlsym(std::ptr::null_mut(), b"verif_set_thread_seed\0".as_ptr() as *const _) };
    !p.is_null()
}

/// Seed the calling thread's future `RandomState` keys (no-op without the shim).
pub fn set_thread_seed(seed: u64) {
    let p = unsafe { dlsym(std::ptr::null_mut(), b"verif_set_thread_seed\0".as_ptr() as *const _) };
    if !p.is_null() {
        let f: extern "C" fn(u64) = unsafe { std::mem::transmute(p) };
        f(seed);
    }
}

pub fn install_panic_hook() {
    std::panic::set_hook(Box::new(|info| {
        let loc = info
            .location()
            .map(|l| format!("{}:{}", l.file(), l.line()))
            .unwrap_or_default();
        let msg = if let Some(s) = info.payload().downcast_ref::<&str>() {
            (*s).to_string()
        } else if let Some(s) = info.payload().downcast_ref::<String>() {
            s.clone()
        } else {
            String::from("<non-string panic>")
        };
        if let Ok(mut g) = PANIC_INFO.lock() {
            g.push(format!("{loc}\u{1}{msg}"));
        }
    }));
}

pub fn take_panic() -> (String, String) {
    let mut g = PANIC_INFO.lock().unwrap_or_else(|e| e.into_inner());
    let last = g.last().cloned().unwrap_or_default();
    g.clear();
    let mut it = last.splitn(2, '\u{1}');
    let loc = it.next().unwrap_or("").to_string();
    let msg = it.next().unwrap_or("").to_string();
    (loc, msg)
}

fn read_blob<R: BufRead>(r: &mut R) -> Option<Vec<u8>> {
    let mut line = String::new();
    if r.read_line(&mut line).ok()? == 0 {
        return None;
    }
    let n: usize = line.trim().parse().ok()?;
    let mut buf = vec![0u8; n];
    r.read_exact(&mut buf).ok()?;
    Some(buf)
}

fn blob_str<R: BufRead>(r: &mut R) -> Option<String> {
    read_blob(r).map(|b| String::from_utf8_lossy(&b).into_owned())
}

fn opt(s: String) -> Option<String> {
    if s == "\0" {
        None
    } else {
        Some(s)
    }
}

pub const STACK: usize = 8 * 1024 * 1024;

pub type Files = Vec<(String, Option<PathBuf>)>;

/// One run of the real pipeline on a fresh thread (8 MiB stack, like the CLI's
/// main thread), hash keys seeded, panics caught.
pub fn transpile_once(files: Files, dir: PathBuf, annotate: bool, seed: u64) -> String {
    let t0 = Instant::now();
    let h = std::thread::Builder::new()
        .stack_size(STACK)
        .spawn(move || {
            set_thread_seed(seed);
            let args = mamba::PipelineArguments { annotate };
            mamba::mamba_to_python(&files, &dir, &args)
        })
        .expect("spawn");
    let res = h.join();
    let us = t0.elapsed().as_micros();
    match res {
        Ok(Ok(out)) => format!("\"v\":\"ok\",\"out\":{},\"us\":{us}", str_arr(&out)),
        Ok(Err(errs)) => format!("\"v\":\"err\",\"errs\":{},\"us\":{us}", str_arr(&errs)),
        Err(_) => {
            let (loc, msg) = take_panic();
            format!(
                "\"v\":\"panic\",\"loc\":{},\"msg\":{},\"us\":{us}",
                esc(&loc),
                esc(&msg)
            )
        }
    }
}

/// A history on ONE thread: the requests run back to back, sharing the thread's
/// RandomState key counter and any process/thread state.
fn transpile_history(reqs: Vec<(Files, PathBuf, bool)>, seed: u64) -> String {
    let h = std::thread::Builder::new()
        .stack_size(STACK)
        .spawn(move || {
            set_thread_seed(seed);
            let mut outs = vec![];
            for (files, dir, annotate) in reqs {
                let args = mamba::PipelineArguments { annotate };
                let r = std::panic::catch_unwind(|| mamba::mamba_to_python(&files, &dir, &args));
                outs.push(match r {
                    Ok(Ok(out)) => format!("{{\"v\":\"ok\",\"out\":{}}}", str_arr(&out)),
                    Ok(Err(errs)) => format!("{{\"v\":\"err\",\"errs\":{}}}", str_arr(&errs)),
                    Err(_) => {
                        let (loc, msg) = take_panic();
                        format!("{{\"v\":\"panic\",\"loc\":{},\"msg\":{}}}", esc(&loc), esc(&msg))
                    }
                });
            }
            outs
        })
        .expect("spawn");
    match h.join() {
        Ok(outs) => format!("\"v\":\"hist\",\"runs\":{}", arr(outs)),
        Err(_) => String::from("\"v\":\"panic\",\"loc\":\"\",\"msg\":\"history thread died\""),
    }
}

/// The same request on `n` free-running threads at once (each with its own seed).
fn transpile_threads(files: Files, dir: PathBuf, annotate: bool, n: usize, seed: u64) -> String {
    let barrier = std::sync::Arc::new(std::sync::Barrier::new(n));
    let mut hs = vec![];
    for i in 0..n {
        let files = files.clone();
        let dir = dir.clone();
        let barrier = barrier.clone();
        hs.push(
            std::thread::Builder::new()
                .stack_size(STACK)
                .spawn(move || {
                    set_thread_seed(seed + i as u64);
                    barrier.wait();
                    let args = mamba::PipelineArguments { annotate };
                    mamba::mamba_to_python(&files, &dir, &args)
                })
                .expect("spawn"),
        );
    }
    let mut outs = vec![];
    for h in hs {
        outs.push(match h.join() {
            Ok(Ok(out)) => format!("{{\"v\":\"ok\",\"out\":{}}}", str_arr(&out)),
            Ok(Err(errs)) => format!("{{\"v\":\"err\",\"errs\":{}}}", str_arr(&errs)),
            Err(_) => String::from("{\"v\":\"panic\"}"),
        });
    }
    let _ = take_panic();
    format!("\"v\":\"threads\",\"runs\":{}", arr(outs))
}

fn project_once(dir: PathBuf, src: Option<String>, target: Option<String>, annotate: bool, seed: u64) -> String {
    let h = std::thread::Builder::new()
        .stack_size(STACK)
        .spawn(move || {
            set_thread_seed(seed);
            let args = mamba::Arguments { annotate };
            mamba::transpile_dir(&dir, src.as_deref(), target.as_deref(), &args)
        })
        .expect("spawn");
    match h.join() {
        Ok(Ok(p)) => format!("\"v\":\"ok\",\"path\":{}", esc(&p.display().to_string())),
        Ok(Err(errs)) => format!("\"v\":\"err\",\"errs\":{}", str_arr(&errs)),
        Err(_) => {
            let (loc, msg) = take_panic();
            format!("\"v\":\"panic\",\"loc\":{},\"msg\":{}", esc(&loc), esc(&msg))
        }
    }
}

fn read_files<R: BufRead>(r: &mut R, n: usize) -> Option<Files> {
    let mut files = vec![];
    for _ in 0..n {
        let path = opt(blob_str(r)?).map(PathBuf::from);
        let src = blob_str(r)?;
        files.push((src, path));
    }
    Some(files)
}

pub fn serve() {
    install_panic_hook();
    let stdin = std::io::stdin();
    let mut r = stdin.lock();
    let stdout = std::io::stdout();
    let mut w = stdout.lock();
    let mut line = String::new();
    loop {
        line.clear();
        match r.read_line(&mut line) {
            Ok(0) | Err(_) => return,
            _ => {}
        }
        let parts: Vec<&str> = line.split_whitespace().collect();
        if parts.is_empty() {
            continue;
        }
        let cmd = parts[0];
        if cmd == "Q" {
            return;
        }
        let id = parts.get(1).copied().unwrap_or("0").to_string();
        let num = |i: usize| -> u64 { parts.get(i).and_then(|s| s.parse().ok()).unwrap_or(0) };
        let body = match cmd {
            "T" => {
                let (annotate, seed, n) = (num(2) != 0, num(3), num(4) as usize);
                let dir = PathBuf::from(blob_str(&mut r).unwrap_or_default());
                let files = match read_files(&mut r, n) {
                    Some(f) => f,
                    None => return,
                };
                writeln!(w, "B {id}").ok();
                w.flush().ok();
                transpile_once(files, dir, annotate, seed)
            }
            "H" => {
                // H id seed nreq ; per request: header blob "annotate nfiles", dir, files
                let (seed, nreq) = (num(2), num(3) as usize);
                let mut reqs = vec![];
                for _ in 0..nreq {
                    let hdr = blob_str(&mut r).unwrap_or_default();
                    let hp: Vec<&str> = hdr.split_whitespace().collect();
                    let annotate = hp.first().map_or(false, |s| *s != "0");
                    let n: usize = hp.get(1).and_then(|s| s.parse().ok()).unwrap_or(0);
                    let dir = PathBuf::from(blob_str(&mut r).unwrap_or_default());
                    let files = match read_files(&mut r, n) {
                        Some(f) => f,
                        None => return,
                    };
                    reqs.push((files, dir, annotate));
                }
                writeln!(w, "B {id}").ok();
                w.flush().ok();
                transpile_history(reqs, seed)
            }
            "M" => {
                let (annotate, seed, n, threads) = (num(2) != 0, num(3), num(4) as usize, num(5) as usize);
                let dir = PathBuf::from(blob_str(&mut r).unwrap_or_default());
                let files = match read_files(&mut r, n) {
                    Some(f) => f,
                    None => return,
                };
                writeln!(w, "B {id}").ok();
                w.flush().ok();
                transpile_threads(files, dir, annotate, threads, seed)
            }
            "P" => {
                let (annotate, seed) = (num(2) != 0, num(3));
                let dir = PathBuf::from(blob_str(&mut r).unwrap_or_default());
                let src = opt(blob_str(&mut r).unwrap_or_default());
                let target = opt(blob_str(&mut r).unwrap_or_default());
                writeln!(w, "B {id}").ok();
                w.flush().ok();
                project_once(dir, src, target, annotate, seed)
            }
            "L" => {
                let text = blob_str(&mut r).unwrap_or_default();
                writeln!(w, "B {id}").ok();
                w.flush().ok();
                let res = std::panic::catch_unwind(|| lexcheck::dump(&text));
                match res {
                    Ok(s) => s,
                    Err(_) => {
                        let (loc, msg) = take_panic();
                        format!("\"v\":\"panic\",\"loc\":{},\"msg\":{}", esc(&loc), esc(&msg))
                    }
                }
            }
            "X" => {
                let text = blob_str(&mut r).unwrap_or_default();
                writeln!(w, "B {id}").ok();
                w.flush().ok();
                let res = std::panic::catch_unwind(|| lexcheck::check_json(&text));
                match res {
                    Ok(s) => s,
                    Err(_) => {
                        let (loc, msg) = take_panic();
                        format!("\"v\":\"panic\",\"loc\":{},\"msg\":{}", esc(&loc), esc(&msg))
                    }
                }
            }
            "A" => {
                // parse only: shape of the tree with positions erased
                let text = blob_str(&mut r).unwrap_or_default();
                writeln!(w, "B {id}").ok();
                w.flush().ok();
                let res = std::panic::catch_unwind(|| match text.parse::<mamba::parse::ast::AST>() {
                    Ok(ast) => format!("\"v\":\"ok\",\"shape\":{}", esc(&crate::layout::shape(&ast))),
                    Err(e) => format!("\"v\":\"err\",\"msg\":{}", esc(&e.msg)),
                });
                match res {
                    Ok(s) => s,
                    Err(_) => {
                        let (loc, msg) = take_panic();
                        format!("\"v\":\"panic\",\"loc\":{},\"msg\":{}", esc(&loc), esc(&msg))
                    }
                }
            }
            "S" => {
                writeln!(w, "B {id}").ok();
                format!("\"v\":\"status\",\"shim\":{}", shim_present())
            }
            _ => {
                writeln!(w, "B {id}").ok();
                String::from("\"v\":\"badcmd\"")
            }
        };
        writeln!(w, "R {{\"id\":{},{}}}", esc(&id), body).ok();
        w.flush().ok();
    }
}
