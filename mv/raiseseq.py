"""Raise machine (C08): all statement sequences of a function body over raise / raising call / handle / if, up to a size and
nesting bound, against a reference model of the set of caught classes - statically (accepted iff every raisable class is
declared or handled where it can be raised) and dynamically (which arm runs, what escapes).

    hierarchy  Exception > E1 > E2,  Exception > E3
    host:      def host(k: Int) [raise [D]] => <sequence> ; print("done")        D in {(), (E1), (E3)}
    rX         if k = <n> then raise X("m")            X in {E1, E2, E3}     (n = index of the statement: at most one fires per run)
    cX         fX(k, <n>)                              call of `def fX(k: Int, n: Int) -> Int raise [X]`, raises X iff k = n
    H(A)[g|s]  g handle / a1: A1 => s ; print / a2: A2 => print       g in {cX}, A an ordered list of 1-2 classes, s a sequence
    I[s]       if k > 0 then s

Reference model.  Static: `caught` starts as D; rX / cX are legal iff an ancestor-or-self of X is in caught; inside the guarded
statement of H(A) caught is extended by A, inside the arm bodies and after the handle it is what it was before.  Dynamic
(the host is run once for every statement index n, and once with k = 0): the statement with index n raises its class; the
innermost enclosing handle whose guarded statement contains it and that has an arm for an ancestor-or-self catches it - the FIRST
such arm runs (its body may raise in turn) - otherwise it escapes from host and the top-level handle prints "escaped <class>".
"""

IND = "    "
ANC = {"E1": ["E1", "Exception"], "E2": ["E2", "E1", "Exception"], "E3": ["E3", "Exception"]}
CLASSES = ["E1", "E2", "E3"]
ARMS_QUICK = [("E1",), ("Exception",), ("E2", "E1")]
ARMS_ALL = [("E1",), ("E2",), ("E3",), ("Exception",), ("E2", "E1"), ("E1", "E2"), ("E1", "E3"), ("E3", "Exception")]
DECLARED = [(), ("E1",), ("E3",)]


def sequences(n, depth, arms):
    """sequences with exactly n statements (a handle counts 1 + its arm body, an if 1 + its body)"""
    if n == 0:
        yield ()
        return
    for x in CLASSES:
        for kind in "rc":
            for rest in sequences(n - 1, depth, arms):
                yield ((kind, x),) + rest
    if depth > 0:
        for k in range(0, n):
            for body in sequences(k, depth - 1, arms):
                for rest in sequences(n - 1 - k, depth, arms):
                    for a in arms:
                        for g in CLASSES:
                            yield (("H", a, g, body),) + rest
        for k in range(1, n):
            for body in sequences(k, depth - 1, arms):
                for rest in sequences(n - 1 - k, depth, arms):
                    yield (("I", body),) + rest


def covered(x, caught):
    return any(a in caught for a in ANC[x])


class Static:
    def __init__(self, declared):
        self.faults = []
        self.k = 0
        self.sites = []   # (index, class, handler stack at the site: list of arm lists, innermost last)

    def run(self, seq, caught, stack):
        for st in seq:
            idx = self.k
            self.k += 1
            if st[0] in "rc":
                self.sites.append((idx, st[1], list(stack), None))
                if not covered(st[1], caught):
                    self.faults.append((idx, st[1]))
            elif st[0] == "H":
                _, arms, g, body = st
                # the guarded call is a raise site of its own, inside the extended set
                self.sites.append((idx, g, list(stack) + [(idx, arms, body)], None))
                if not covered(g, set(caught) | set(arms)):
                    self.faults.append((idx, g))
                self.run(body, caught, stack)
            else:
                self.run(st[1], caught, stack)


def index_seq(seq, counter):
    """the same tree with every statement carrying its pre-order index"""
    out = []
    for st in seq:
        idx = counter[0]
        counter[0] += 1
        if st[0] in "rc":
            out.append((st[0], st[1], idx))
        elif st[0] == "H":
            out.append(("H", st[1], st[2], index_seq(st[3], counter), idx))
        else:
            out.append(("I", index_seq(st[1], counter), idx))
    return out


class Escape(Exception):
    def __init__(self, cls):
        self.cls = cls


def simulate(iseq, k, out):
    """run the indexed sequence with argument k; raises Escape(cls) if a class leaves the sequence"""
    for st in iseq:
        if st[0] in "rc":
            if k == st[2] + 1:
                raise Escape(st[1])
        elif st[0] == "H":
            _, arms, g, body, idx = st
            if k == idx + 1:
                arm = next((i for i, a in enumerate(arms) if a in ANC[g]), None)
                if arm is None:
                    raise Escape(g)
                out.append("arm %d.%s" % (idx, arms[arm]))
                if arm == 0:
                    simulate(body, k, out)
                    out.append("armend %d" % idx)
        else:
            if k > 0:
                simulate(st[1], k, out)


def render_seq(iseq, ind, lines):
    p = IND * ind
    for st in iseq:
        if st[0] == "r":
            lines += [p + "if k = %d then" % (st[2] + 1), p + IND + 'raise %s("m")' % st[1]]
        elif st[0] == "c":
            lines.append(p + "f%s(k, %d)" % (st[1], st[2] + 1))
        elif st[0] == "H":
            _, arms, g, body, idx = st
            lines.append(p + "f%s(k, %d) handle" % (g, idx + 1))
            for i, a in enumerate(arms):
                lines.append(p + IND + "x%d: %s =>" % (idx, a))
                lines.append(p + IND * 2 + 'print("arm %d.%s")' % (idx, a))
                if i == 0:
                    render_seq(body, ind + 2, lines)
                    lines.append(p + IND * 2 + 'print("armend %d")' % idx)
        else:
            lines.append(p + "if k > 0 then")
            render_seq(st[1], ind + 1, lines)


PRELUDE = ["class E1(msg: Str): Exception(msg)", "class E2(msg: Str): E1(msg)", "class E3(msg: Str): Exception(msg)"] + \
          [l for x in CLASSES for l in ("def f%s(k: Int, n: Int) -> Int raise [%s] =>" % (x, x), IND + "if k = n then", IND * 2 + 'raise %s("f")' % x, IND + "n")]


def name_of(seq):
    out = []
    for st in seq:
        if st[0] in "rc":
            out.append(st[0] + st[1][1:])
        elif st[0] == "H":
            out.append("H(%s)[c%s|%s]" % ("".join(a[:2] if a != "Exception" else "Ex" for a in st[1]), st[2][1:], name_of(st[3])))
        else:
            out.append("I[%s]" % name_of(st[1]))
    return ".".join(out)


def cases(tier):
    if tier == "quick":
        nmax, depth, arms = 3, 1, ARMS_QUICK
    else:
        nmax, depth, arms = 3, 2, ARMS_ALL[:6]   # (8 arm lists took 45 min for 245 k bodies; 6 lists: about 100 k)
    n = 0
    for total in range(1, nmax + 1):
        for seq in sequences(total, depth, arms):
            if tier == "quick" and total == nmax and not any(st[0] == "H" and st[3] for st in seq):
                continue   # quick: the largest size keeps the sequences with a handle whose first arm has a body
            for declared in DECLARED:
                if tier == "quick" and total == nmax and declared == ("E3",):
                    continue
                m = Static(declared)
                m.run(seq, set(declared), [])
                if len(m.faults) > 1 and total == nmax:
                    continue
                count = [0]
                iseq = index_seq(seq, count)
                lines = list(PRELUDE)
                lines.append("def host(k: Int)%s =>" % ((" raise [%s]" % ", ".join(declared)) if declared else ""))
                body = []
                render_seq(iseq, 1, body)
                lines += body + [IND + 'print("done")']
                fault_line = None
                if m.faults:
                    # line of the first statement that may raise an uncovered class
                    marker_idx = m.faults[0][0]
                    probe = []
                    render_seq(iseq, 1, probe)
                    for i, l in enumerate(probe):
                        if ("k = %d then" % (marker_idx + 1)) in l or (", %d)" % (marker_idx + 1)) in l:
                            fault_line = len(lines) - len(body) - 1 + i + 1 + (1 if "then" in l else 0)
                            break
                expected = None
                if not m.faults:
                    expected = []
                    for k in range(0, count[0] + 1):
                        out = ["run %d" % k]
                        try:
                            simulate(iseq, k, out)
                            out.append("done")
                        except Escape as e:
                            out.append("escaped " + e.cls)
                        expected += out
                    for k in range(0, count[0] + 1):
                        lines += ['print("run %d")' % k, "host(%d) handle" % k] + [l for x in ("E2", "E1", "E3") for l in (IND + "t%d%s: %s =>" % (k, x, x), IND * 2 + 'print("escaped %s")' % x)]
                else:
                    lines += ["host(0) handle", IND + "t0: Exception =>", IND * 2 + 'print("escaped")']
                n += 1
                tags = ["seq:" + name_of(seq), "declared:" + ",".join(declared), "size:%d" % total, "expect:" + ("err" if m.faults else "ok")]
                if m.faults:
                    tags += ["faults:%d" % len(m.faults), "uncovered:" + m.faults[0][1]]
                yield {"id": "c08.seq-%d" % n, "family": "c08.seq", "src": "\n".join(lines) + "\n", "expect": "err" if m.faults else "ok", "fault_line": fault_line,
                       "prints": expected, "tags": tags}


if __name__ == "__main__":
    import collections
    import sys
    for tier in ("quick", "thorough"):
        c = collections.Counter()
        for case in cases(tier):
            c[case["expect"]] += 1
        print(tier, dict(c))
    want = sys.argv[1] if len(sys.argv) > 1 else "seq:H(E2E1)[c2|r1].c3"
    for case in cases("quick"):
        if want in case["tags"] and "declared:E3" in case["tags"]:
            print(case["src"])
            print(case["tags"], case["fault_line"], case["prints"])
            break
