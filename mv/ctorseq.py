"""Constructor machine: all statement sequences of a constructor body over a small alphabet of field operations, up to a
size and nesting bound, against a reference model of definite assignment of fields (C09 reads, C06 'every non-nullable
field is assigned on all paths').

    class Y(def v: Int)
    class K
        def a: Int
        def y: Y
        def __init__(self, c: Bool) => <sequence>

    Aa  self.a := 1            Ay  self.y := Y(2)
    Ra  def r<k>: Int := self.a        Ry  def r<k>: Y := self.y        Rv  def r<k>: Int := self.y.v
    Ny  self.y.v := 3          (assignment THROUGH the field y: reads y, assigns nothing of K)
    Lk  def k: Int := 5        (a LOCAL of the current block)        Uk  def j<k>: Int := k   (a use of the local: needs k visible)
    I[s]     if c then s                    (what s assigns is not assigned afterwards)
    E[s|t]   if c then s else t             (assigned afterwards = assigned in both)

State of the model = the set of fields assigned so far.  Ra needs a; Ry, Rv, Ny need y ('read-unassigned' otherwise);
at the end both a and y must be assigned ('unassigned-at-end').  A program is expected to be accepted iff it has no fault.
First fault read-unassigned -> judged by C09; only unassigned-at-end -> judged by C06; fault-free -> C09 (and executed
with c = True and c = False: no AttributeError / NameError / TypeError).
"""

IND = "    "
SIMPLE = ["Aa", "Ay", "Ra", "Ry", "Rv", "Ny", "Lk", "Uk"]


def sequences(n, depth):
    if n == 0:
        yield ()
        return
    for s in SIMPLE:
        for rest in sequences(n - 1, depth):
            yield (s,) + rest
    if depth > 0:
        for k in range(1, n):
            for inner in sequences(k, depth - 1):
                for rest in sequences(n - 1 - k, depth):
                    yield (("I", inner),) + rest
        for k in range(2, n):
            for k1 in range(1, k):
                for s1 in sequences(k1, depth - 1):
                    for s2 in sequences(k - k1, depth - 1):
                        for rest in sequences(n - 1 - k, depth):
                            yield (("E", s1, s2),) + rest


def run_model(seq, assigned, faults, counter, local=False):
    """`local`: is the local k visible here (a definition inside a branch ends with the branch)"""
    for st in seq:
        idx = counter[0]
        counter[0] += 1
        if isinstance(st, tuple):
            if st[0] == "I":
                run_model(st[1], set(assigned), faults, counter, local)
            else:
                a1, a2 = set(assigned), set(assigned)
                run_model(st[1], a1, faults, counter, local)
                run_model(st[2], a2, faults, counter, local)
                assigned |= (a1 & a2)
            continue
        if st == "Aa":
            assigned.add("a")
        elif st == "Ay":
            assigned.add("y")
        elif st == "Lk":
            local = True
        elif st == "Uk":
            if not local:
                faults.append((idx, "read-unassigned", st))
        else:
            need = "a" if st == "Ra" else "y"
            if need not in assigned:
                faults.append((idx, "read-unassigned", st))
    return assigned


def render_seq(seq, ind, lines, counter, line_of):
    for st in seq:
        idx = counter[0]
        counter[0] += 1
        p = IND * ind
        line_of[idx] = len(lines)
        if isinstance(st, tuple):
            lines.append(p + "if c then")
            render_seq(st[1], ind + 1, lines, counter, line_of)
            if st[0] == "E":
                lines.append(p + "else")
                render_seq(st[2], ind + 1, lines, counter, line_of)
            continue
        lines.append(p + {"Aa": "self.a := 1", "Ay": "self.y := Y(2)", "Ra": "def r%d: Int := self.a" % idx, "Ry": "def r%d: Y := self.y" % idx,
                          "Rv": "def r%d: Int := self.y.v" % idx, "Ny": "self.y.v := 3", "Lk": "def k: Int := 5", "Uk": "def j%d: Int := k" % idx}[st])


def name_of(seq):
    out = []
    for s in seq:
        if isinstance(s, str):
            out.append(s)
        elif s[0] == "I":
            out.append("I[%s]" % name_of(s[1]))
        else:
            out.append("E[%s|%s]" % (name_of(s[1]), name_of(s[2])))
    return ".".join(out)


def render(seq):
    head = ["class Y(def v: Int)", "class K", IND + "def a: Int", IND + "def y: Y", IND + "def __init__(self, c: Bool) =>"]
    body, line_of = [], {}
    render_seq(seq, 2, body, [0], line_of)
    tail = ["def k1 := K(True)", "def k2 := K(False)", 'print("end")']
    return "\n".join(head + body + tail) + "\n", {i: len(head) + l + 1 for i, l in line_of.items()}, len(head)


def cases(prop, tier):
    fam = prop.lower() + ".ctor"
    nmax, depth = (4, 1) if tier == "quick" else (5, 2)
    n = 0
    def all_sequences():
        for total in range(1, nmax + 1):
            for seq in sequences(total, depth):
                yield total, seq
        if tier == "quick":
            # one size more for the shape 'if-else block, then a use of the local': what the branches define must have ended
            for seq in sequences(4, 1):
                if len(seq) == 1 and isinstance(seq[0], tuple) and seq[0][0] == "E":
                    yield 5, seq + ("Uk",)
                    yield 6, ("Ay",) + seq + ("Uk",)   # ... with the other field assigned first, so that the use is the only possible fault

    for total, seq in all_sequences():
        if True:
            faults = []
            assigned = run_model(seq, set(), faults, [0])
            end_missing = sorted({"a", "y"} - assigned)
            if len(faults) > 1 and total >= nmax:
                continue
            if faults:
                judge, reason = "C09", "read-unassigned"
            elif end_missing:
                judge, reason = "C06", "unassigned-at-end"
            else:
                judge, reason = "C09", None
            if judge != prop:
                continue
            src, line_of, ctor_line = render(seq)
            n += 1
            tags = ["ctor:" + name_of(seq), "size:%d" % total]
            if reason:
                tags += ["faults:%d" % (len(faults) + (1 if end_missing else 0))]
                tags += ["reason:" + reason] + (["reads:" + faults[0][2]] if faults else ["missing:" + ",".join(end_missing)])
            yield {"id": "%s-%d" % (fam, n), "family": fam, "src": src, "expect": "err" if reason else "ok",
                   "fault_line": (line_of[faults[0][0]] if faults else ctor_line) if reason else None,
                   "tags": tags + ["expect:" + ("err" if reason else "ok")] + ([] if reason else ["run"])}


if __name__ == "__main__":
    import collections
    for tier in ("quick", "thorough"):
        c = collections.Counter()
        for p in ("C06", "C09"):
            for case in cases(p, tier):
                c[(p, case["expect"])] += 1
        print(tier, dict(c))
    for case in cases("C09", "quick"):
        if "ctor:I[Ay].E[Aa|Aa.Ny]" in case["tags"] or case["id"].endswith("-700"):
            print(case["src"], case["tags"], case["fault_line"])
            break
