//! C20: the assignability relation on a finite universe of types, computed by the
//! real `is_superset_of` for ALL ordered pairs, then checked against the order
//! laws over all pairs and triples (bitset matrix), and recomputed under several
//! hash seeds.
use std::collections::{BTreeMap, BTreeSet, HashMap};
use std::convert::TryFrom;

use mamba::check::context::Context;
use mamba::check::name::string_name::StringName;
use mamba::check::name::true_name::TrueName;
use mamba::check::name::{IsSuperSet, Name, Nullable, Union};
use mamba::common::position::Position;
use mamba::parse::ast::AST;

use crate::json::{arr, esc};
use crate::serve::set_thread_seed;

const SRC: &str = "class A\nclass B: A\nclass C: A\nclass D: B, C\nclass U\nclass E1(msg: Str): Exception(msg)\nclass E2(msg: Str): E1(msg)\nclass IL: List[Int]\nclass St: IL\n";

/// a non-generic class below an INSTANTIATION of a generic class: (sub, sup, expected)
const GENERIC_ANCESTORS: &[(&str, &str, bool)] = &[
    ("IL", "List[Int]", true),
    ("IL", "Collection[Int]", true),
    ("St", "IL", true),
    ("St", "List[Int]", true),
    ("St", "Collection[Int]", true),
    ("IL", "List[Str]", false),
    ("List[Int]", "IL", false),
    ("IL", "St", false),
];

#[derive(Clone)]
struct Ty {
    label: String,
    name: Name,
    // classification used by the laws
    plain: Option<String>,        // a single non-generic, non-nullable class
    nullable_of: Option<usize>,   // index of T for a T?
    union_of: Option<(usize, usize)>,
    is_none: bool,
    is_any: bool,
    callable: bool,
}

fn generic(name: &str, args: &[Name]) -> Name {
    Name::from(&TrueName::from(&StringName::new(name, args)))
}

fn build_universe(ctx: &Context, depth: usize) -> Vec<Ty> {
    let mut u: Vec<Ty> = vec![];
    // every non-generic class of the context (built-ins from the stubs + user classes)
    let mut plain: BTreeSet<String> = BTreeSet::new();
    for c in &ctx.classes {
        if c.name.generics.is_empty() {
            plain.insert(c.name.name.clone());
        }
    }
    let mk = |label: String, name: Name| Ty {
        label,
        name,
        plain: None,
        nullable_of: None,
        union_of: None,
        is_none: false,
        is_any: false,
        callable: false,
    };
    for p in &plain {
        let mut t = mk(p.clone(), Name::from(p.as_str()));
        t.plain = Some(p.clone());
        t.is_none = p == "None";
        t.is_any = p == "Any";
        u.push(t);
    }
    let nplain = u.len();
    // nullable variants
    for i in 0..nplain {
        if u[i].is_none {
            continue;
        }
        let mut t = mk(format!("{}?", u[i].label), u[i].name.as_nullable());
        t.nullable_of = Some(i);
        u.push(t);
    }
    // unions of two members over the core names
    let core = ["Int", "Float", "Complex", "Str", "Bool", "A", "B", "C", "D", "U", "E1", "E2", "Exception", "Range"];
    let idx: HashMap<String, usize> = u.iter().enumerate().map(|(i, t)| (t.label.clone(), i)).collect();
    for (a, la) in core.iter().enumerate() {
        for lb in core.iter().skip(a + 1) {
            let (i, j) = (idx[*la], idx[*lb]);
            let mut t = mk(format!("{la}|{lb}"), u[i].name.union(&u[j].name));
            t.union_of = Some((i, j));
            u.push(t);
        }
    }
    // unions with a nullable member / with None
    for la in ["Int", "Str", "A", "B"] {
        let i = idx[la];
        let n = idx["None"];
        let mut t = mk(format!("{la}|None"), u[i].name.union(&u[n].name));
        t.union_of = Some((i, n));
        u.push(t);
    }
    // generic instantiations
    // the argument set contains two chains of length 3 (Int <= Float <= Complex, D <= B <= A): assignability between
    // instantiations must follow the arguments' order over more than one inheritance step
    let args1 = ["Int", "Float", "Str", "A", "B", "Int?", "Complex", "D"];
    let arg_names: Vec<(String, Name)> = args1.iter().map(|l| (l.to_string(), u[idx[*l]].name.clone())).collect();
    let mut level: Vec<(String, Name)> = arg_names.clone();
    for d in 0..depth {
        let mut next: Vec<(String, Name)> = vec![];
        let inner: Vec<(String, Name)> = if d == 0 { level.clone() } else { level.iter().take(24).cloned().collect() };
        for (l, n) in &inner {
            next.push((format!("List[{l}]"), generic("List", &[n.clone()])));
            next.push((format!("Set[{l}]"), generic("Set", &[n.clone()])));
            next.push((format!("Collection[{l}]"), generic("Collection", &[n.clone()])));
        }
        let pair_inner: Vec<(String, Name)> = if d == 0 { inner.clone() } else { inner.iter().take(8).cloned().collect() };
        for (l1, n1) in &pair_inner {
            for (l2, n2) in &pair_inner {
                next.push((format!("Tuple[{l1},{l2}]"), generic("Tuple", &[n1.clone(), n2.clone()])));
                next.push((format!("Dict[{l1},{l2}]"), generic("Dict", &[n1.clone(), n2.clone()])));
            }
        }
        for (l, n) in &next {
            u.push(mk(l.clone(), n.clone()));
        }
        // nullable generic
        for (l, n) in next.iter().take(12) {
            u.push(mk(format!("{l}?"), n.as_nullable()));
        }
        level = next;
    }
    // function types (reflexivity only)
    for (l, n) in arg_names.iter().take(3) {
        let mut t = mk(
            format!("({l})->{l}"),
            generic("Callable", &[generic("Tuple", &[n.clone()]), n.clone()]),
        );
        t.callable = true;
        u.push(t);
    }
    u
}

struct Matrix {
    n: usize,
    words: usize,
    bits: Vec<u64>, // row-major: bit (i, j) = Ti.is_superset_of(Tj)
    errors: Vec<(usize, usize, String)>,
}

impl Matrix {
    fn get(&self, i: usize, j: usize) -> bool {
        self.bits[i * self.words + j / 64] >> (j % 64) & 1 == 1
    }
}

fn compute(ctx: &Context, u: &[Ty], threads: usize) -> Matrix {
    let n = u.len();
    let words = (n + 63) / 64;
    let mut bits = vec![0u64; n * words];
    let mut errors = vec![];
    let rows: Vec<usize> = (0..n).collect();
    let chunks: Vec<&[usize]> = rows.chunks((n + threads - 1) / threads.max(1)).collect();
    std::thread::scope(|s| {
        let mut hs = vec![];
        for ch in chunks {
            hs.push(s.spawn(move || {
                let mut out: Vec<(usize, Vec<u64>, Vec<(usize, usize, String)>)> = vec![];
                for &i in ch {
                    let mut row = vec![0u64; words];
                    let mut errs = vec![];
                    for j in 0..n {
                        match u[i].name.is_superset_of(&u[j].name, ctx, Position::invisible()) {
                            Ok(true) => row[j / 64] |= 1 << (j % 64),
                            Ok(false) => {}
                            Err(e) => errs.push((i, j, e.first().map(|e| e.msg.clone()).unwrap_or_default())),
                        }
                    }
                    out.push((i, row, errs));
                }
                out
            }));
        }
        for h in hs {
            for (i, row, errs) in h.join().expect("matrix thread") {
                bits[i * words..(i + 1) * words].copy_from_slice(&row);
                errors.extend(errs);
            }
        }
    });
    Matrix { n, words, bits, errors }
}

/// Equality of types as the relation sees them: mutually assignable.
fn equiv(a: &Name, b: &Name, ctx: &Context) -> bool {
    a == b
        || (matches!(a.is_superset_of(b, ctx, Position::invisible()), Ok(true))
            && matches!(b.is_superset_of(a, ctx, Position::invisible()), Ok(true)))
}

fn ancestors(ctx: &Context) -> BTreeMap<String, BTreeSet<String>> {
    // independent reference: reflexive-transitive closure of the declared parents
    let mut direct: BTreeMap<String, BTreeSet<String>> = BTreeMap::new();
    for c in &ctx.classes {
        let e = direct.entry(c.name.name.clone()).or_default();
        for p in &c.parents {
            e.insert(p.name.variant.name.clone());
        }
    }
    let mut closure: BTreeMap<String, BTreeSet<String>> = BTreeMap::new();
    for k in direct.keys() {
        let mut seen: BTreeSet<String> = BTreeSet::new();
        let mut stack = vec![k.clone()];
        while let Some(x) = stack.pop() {
            if !seen.insert(x.clone()) {
                continue;
            }
            if let Some(ps) = direct.get(&x) {
                for p in ps {
                    stack.push(p.clone());
                }
            }
        }
        closure.insert(k.clone(), seen);
    }
    closure
}

pub fn run(args: &[String]) {
    crate::serve::install_panic_hook();
    let depth: usize = args.first().and_then(|s| s.parse().ok()).unwrap_or(1);
    let nseeds: u64 = args.get(1).and_then(|s| s.parse().ok()).unwrap_or(4);
    let seed0: u64 = args.get(2).and_then(|s| s.parse().ok()).unwrap_or(0);
    let threads: usize = args.get(3).and_then(|s| s.parse().ok()).unwrap_or(16);

    let mut viol: Vec<String> = vec![];
    let emit = |law: &str, detail: String, v: &mut Vec<String>| {
        let key = format!("{{\"law\":{},", esc(law));
        if v.iter().filter(|x| x.starts_with(&key)).count() < 200 {
            v.push(format!("{{\"law\":{},\"detail\":{}}}", esc(law), esc(&detail)));
        }
    };
    let mut counts: BTreeMap<&str, u64> = BTreeMap::new();
    let mut failed: BTreeMap<&str, u64> = BTreeMap::new();

    // the base matrix under seed0, built on a seeded thread
    let build = move |seed: u64| {
        std::thread::Builder::new()
            .stack_size(crate::serve::STACK)
            .spawn(move || {
                set_thread_seed(seed);
                let ast: AST = SRC.parse::<AST>().expect("universe source parses");
                let ctx = Context::try_from(&[ast][..]).expect("context");
                let u = build_universe(&ctx, depth);
                let m = compute(&ctx, &u, threads);
                let anc = ancestors(&ctx);
                // union algebra by == on this seed
                let mut alg: Vec<String> = vec![];
                let mut neq = 0u64;
                let small: Vec<usize> = (0..u.len()).filter(|i| u[*i].plain.is_some() || u[*i].nullable_of.is_some()).take(48).collect();
                for &a in &small {
                    if !equiv(&u[a].name.union(&u[a].name), &u[a].name, &ctx) {
                        alg.push(format!("idempotent: {0} ∪ {0} != {0}", u[a].label));
                    }
                    for &b in &small {
                        let ab = u[a].name.union(&u[b].name);
                        let ba = u[b].name.union(&u[a].name);
                        if !equiv(&ab, &ba, &ctx) {
                            alg.push(format!("commutative: {} ∪ {}", u[a].label, u[b].label));
                        }
                    }
                }
                let tiny: Vec<usize> = small.iter().cloned().take(16).collect();
                for &a in &tiny {
                    for &b in &tiny {
                        for &c in &tiny {
                            let l = u[a].name.union(&u[b].name).union(&u[c].name);
                            let r = u[a].name.union(&u[b].name.union(&u[c].name));
                            if l != r {
                                neq += 1;
                            }
                            if !equiv(&l, &r, &ctx) {
                                alg.push(format!("associative: ({0} ∪ {1}) ∪ {2} = {3} but {0} ∪ ({1} ∪ {2}) = {4}", u[a].label, u[b].label, u[c].label, l, r));
                            }
                        }
                    }
                }
                let _ = neq;
                (u, m, anc, alg, small.len(), tiny.len())
            })
            .expect("spawn")
            .join()
    };
    let (u, m, anc, alg, nsmall, ntiny) = match build(seed0) {
        Ok(x) => x,
        Err(_) => {
            let (loc, msg) = crate::serve::take_panic();
            println!("S {{\"panic\":{}}}", esc(&format!("{loc}: {msg}")));
            return;
        }
    };
    let n = m.n;
    for a in alg {
        *failed.entry("union-algebra").or_default() += 1;
        emit("union-algebra", a, &mut viol);
    }
    *counts.entry("union-algebra").or_default() += (nsmall + nsmall * nsmall + ntiny * ntiny * ntiny) as u64;
    for (i, j, e) in &m.errors {
        // an error instead of an answer: not a law violation by itself, reported separately
        if *i == *j {
            *failed.entry("reflexive").or_default() += 1;
            emit("reflexive", format!("{} vs itself: error {}", u[*i].label, e), &mut viol);
        }
    }
    // reflexive
    for i in 0..n {
        *counts.entry("reflexive").or_default() += 1;
        if !m.get(i, i) && !m.errors.iter().any(|(a, b, _)| a == b && *a == i) {
            *failed.entry("reflexive").or_default() += 1;
            emit("reflexive", format!("{} is not assignable to itself", u[i].label), &mut viol);
        }
    }
    // transitive: R[i][j] & R[j][k] => R[i][k]   (row_j subset of row_i whenever bit(i,j))
    for i in 0..n {
        if u[i].callable {
            continue;
        }
        for j in 0..n {
            if i == j || u[j].callable || !m.get(i, j) {
                continue;
            }
            *counts.entry("transitive").or_default() += n as u64;
            for w in 0..m.words {
                let missing = m.bits[j * m.words + w] & !m.bits[i * m.words + w];
                if missing != 0 {
                    for b in 0..64 {
                        if missing >> b & 1 == 1 {
                            let k = w * 64 + b;
                            if k < n && !u[k].callable {
                                *failed.entry("transitive").or_default() += 1;
                                emit("transitive", format!("{k_} <= {j_} and {j_} <= {i_} but not {k_} <= {i_}", k_ = u[k].label, j_ = u[j].label, i_ = u[i].label), &mut viol);
                            }
                        }
                    }
                }
            }
        }
    }
    let any = u.iter().position(|t| t.is_any);
    let none = u.iter().position(|t| t.is_none);
    for (i, t) in u.iter().enumerate() {
        if t.callable {
            continue;
        }
        // Any above every non-nullable type
        if let Some(a) = any {
            if !t.name.is_nullable() && !t.is_none {
                *counts.entry("any-top").or_default() += 1;
                if !m.get(a, i) {
                    *failed.entry("any-top").or_default() += 1;
                    emit("any-top", format!("{} is not assignable to Any", t.label), &mut viol);
                }
            }
        }
        // nullable rules
        if let Some(b) = t.nullable_of {
            if u[b].is_any {
                continue;
            }
            *counts.entry("nullable").or_default() += 3;
            if !m.get(i, b) {
                *failed.entry("nullable").or_default() += 1;
                emit("nullable", format!("{} is not assignable to {}", u[b].label, t.label), &mut viol);
            }
            if let Some(nn) = none {
                if !m.get(i, nn) {
                    *failed.entry("nullable").or_default() += 1;
                    emit("nullable", format!("None is not assignable to {}", t.label), &mut viol);
                }
                if m.get(b, nn) {
                    *failed.entry("nullable").or_default() += 1;
                    emit("nullable", format!("None is assignable to non-nullable {}", u[b].label), &mut viol);
                }
            }
            if m.get(b, i) {
                *failed.entry("nullable").or_default() += 1;
                emit("nullable", format!("{} is assignable to {}", t.label, u[b].label), &mut viol);
            }
        }
        // union rules
        if let Some((a, b)) = t.union_of {
            if u[a].is_none || u[b].is_none {
                continue;
            }
            *counts.entry("union-accepts-members").or_default() += 2;
            for x in [a, b] {
                if !m.get(i, x) {
                    *failed.entry("union-accepts-members").or_default() += 1;
                    emit("union-accepts-members", format!("{} is not assignable to {}", u[x].label, t.label), &mut viol);
                }
            }
            for (k, s) in u.iter().enumerate() {
                if s.callable {
                    continue;
                }
                *counts.entry("union-iff-members").or_default() += 1;
                let want = m.get(k, a) && m.get(k, b);
                if m.get(k, i) != want {
                    *failed.entry("union-iff-members").or_default() += 1;
                    emit(
                        "union-iff-members",
                        format!("{} <= {} is {} but members: {} <= it is {}, {} <= it is {}", t.label, s.label, m.get(k, i), u[a].label, m.get(k, a), u[b].label, m.get(k, b)),
                        &mut viol,
                    );
                }
            }
        }
    }
    // nominal fragment against the independent ancestor closure
    for (i, s) in u.iter().enumerate() {
        for (j, t) in u.iter().enumerate() {
            if let (Some(sup), Some(sub)) = (&s.plain, &t.plain) {
                if s.is_none || t.is_none {
                    continue;
                }
                *counts.entry("nominal").or_default() += 1;
                let want = sup == "Any" || anc.get(sub).map_or(false, |a| a.contains(sup));
                if m.get(i, j) != want {
                    *failed.entry("nominal").or_default() += 1;
                    emit("nominal", format!("{sub} <= {sup}: implementation says {}, ancestor closure says {want}", m.get(i, j)), &mut viol);
                }
            }
        }
    }
    // a class is assignable to each of its declared ancestors, also when the ancestor is an instantiation of a generic class
    let index: HashMap<&str, usize> = u.iter().enumerate().map(|(i, t)| (t.label.as_str(), i)).collect();
    for (sub, sup, want) in GENERIC_ANCESTORS {
        if let (Some(&j), Some(&i)) = (index.get(sub), index.get(sup)) {
            *counts.entry("generic-ancestor").or_default() += 1;
            if m.get(i, j) != *want {
                *failed.entry("generic-ancestor").or_default() += 1;
                emit("generic-ancestor", format!("{sub} <= {sup}: implementation says {}, the declared parents say {want}", m.get(i, j)), &mut viol);
            }
        }
    }
    // order independence: the whole matrix again under other seeds
    let mut seeds_done = 1u64;
    for s in 1..nseeds {
        match build(seed0 + s) {
            Ok((u2, m2, _, alg2, _, _)) => {
                seeds_done += 1;
                *counts.entry("seed-independent").or_default() += (n * n) as u64;
                if u2.len() != n || m2.bits != m.bits {
                    let mut shown = 0;
                    for i in 0..n.min(u2.len()) {
                        for j in 0..n.min(u2.len()) {
                            if m.get(i, j) != m2.get(i, j) && shown < 20 {
                                shown += 1;
                                *failed.entry("seed-independent").or_default() += 1;
                                emit("seed-independent", format!("{} <= {}: {} under seed {}, {} under seed {}", u[j].label, u[i].label, m.get(i, j), seed0, m2.get(i, j), seed0 + s), &mut viol);
                            }
                        }
                    }
                }
                for a in alg2 {
                    *failed.entry("union-algebra").or_default() += 1;
                    emit("union-algebra", format!("seed {}: {a}", seed0 + s), &mut viol);
                }
            }
            Err(_) => {
                let (loc, msg) = crate::serve::take_panic();
                *failed.entry("panic").or_default() += 1;
                emit("panic", format!("seed {}: {loc}: {msg}", seed0 + s), &mut viol);
            }
        }
    }
    // rows for the end-to-end subset
    let e2e: Vec<usize> = (0..n).filter(|i| u[*i].plain.is_some() || u[*i].nullable_of.is_some()).collect();
    let rows = arr(e2e.iter().map(|&i| {
        let row: String = e2e.iter().map(|&j| if m.get(i, j) { '1' } else { '0' }).collect();
        esc(&row)
    }));
    let labels = arr(e2e.iter().map(|&i| esc(&u[i].label)));
    println!("M {{\"labels\":{labels},\"rows\":{rows}}}");
    let true_pairs: u64 = m.bits.iter().map(|w| w.count_ones() as u64).sum();
    println!(
        "S {{\"types\":{n},\"pairs\":{},\"true_pairs\":{true_pairs},\"errors\":{},\"seeds\":{seeds_done},\"laws\":{{{}}},\"failed\":{{{}}},\"violations\":{},\"samples\":{}}}",
        n * n,
        m.errors.len(),
        counts.iter().map(|(k, v)| format!("{}:{}", esc(k), v)).collect::<Vec<_>>().join(","),
        failed.iter().map(|(k, v)| format!("{}:{}", esc(k), v)).collect::<Vec<_>>().join(","),
        arr(viol.iter().cloned()),
        arr(u.iter().step_by((n / 12).max(1)).map(|t| esc(&t.label)))
    );
    for (i, j, e) in m.errors.iter().take(30) {
        println!("E {{\"sup\":{},\"sub\":{},\"msg\":{}}}", esc(&u[*i].label), esc(&u[*j].label), esc(e));
    }
}

/// C12 calibration: which iteration order does each seed induce on small probe sets?
pub fn seedprobe(args: &[String]) {
    use std::collections::HashSet;
    let from: u64 = args.first().and_then(|s| s.parse().ok()).unwrap_or(0);
    let count: u64 = args.get(1).and_then(|s| s.parse().ok()).unwrap_or(16);
    for seed in from..from + count {
        let line = std::thread::spawn(move || {
            set_thread_seed(seed);
            let mut out = vec![];
            let sets: Vec<Vec<&str>> = vec![
                vec!["Int", "Str"],
                vec!["A", "B"],
                vec!["Int", "Str", "Float"],
                vec!["A", "B", "C"],
                vec!["f", "m", "g"],
                vec!["Int", "Str", "Float", "Bool"],
            ];
            for s in &sets {
                let hs: HashSet<&str> = s.iter().cloned().collect();
                let order: Vec<String> = hs.iter().map(|x| s.iter().position(|y| y == x).unwrap().to_string()).collect();
                out.push(esc(&order.join("")));
            }
            // sets of type names, as the checker builds them
            for s in [vec!["Int", "Str"], vec!["Int", "Str", "Float"]] {
                let hs: HashSet<TrueName> = s.iter().map(|n| TrueName::from(*n)).collect();
                let order: Vec<String> = hs.iter().map(|x| s.iter().position(|y| TrueName::from(*y) == *x).unwrap().to_string()).collect();
                out.push(esc(&order.join("")));
            }
            arr(out)
        })
        .join()
        .unwrap_or_default();
        println!("P {{\"seed\":{seed},\"orders\":{line}}}");
    }
}
