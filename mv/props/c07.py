"""C07 - immutability: `fin` variables, fields and parameters are never reassigned.

definition forms x assignment forms x positions (contexts depth 1 / 2), including
after shadowing re-definitions with the other mutability and after a branch that
shadowed; the mutable counterparts with a value of the right type are the
accepting half.
"""
from .. import ctxgen, scopeseq
from ..staticprop import evaluate_verdict

ID = "C07"
LEVEL = "exploration"
CHUNK = 32
RULE = ("complete product contexts x definition forms x assignment operators x shadowing shapes; expectation by construction; distinct by source text")
ASSUMPTIONS = ["a for-loop variable and an un-annotated parameter are mutable in this implementation (cannot be declared fin / are declared fin explicitly)",
               "calling a method with mutable self on a fin receiver is not stated by the documentation and is not judged"]

OPS = [":=", "+=", "-=", "*=", "^=", "<<=", ">>="]   # '/=' changes Int to Float: tested on a Float variable only


def payloads(tier):
    out = []

    def add(kind, pre, body, ok, tags, fault=None):
        out.append({"kind": kind, "prelude": pre, "body": body, "expect": "ok" if ok else "err", "tags": tags, "fault": fault})

    K = ["class K(def a: Int, def fin b: Int)", "    def c: Int := 1", "    def fin d: Int := 2",
         "    def set_a(self) =>", "        self.a := 5", "    def set_c(self) =>", "        self.c := 5"]
    for op in OPS:
        t = ["op:" + op]
        rhs = "2"
        # local variables
        add("var", [], ["def x: Int := 1", "x %s %s" % (op, rhs)], True, t + ["decl:mutable"])
        add("var", [], ["def fin x: Int := 1", "x %s %s" % (op, rhs)], False, t + ["decl:fin"], 1)
        add("var-inferred", [], ["def x := 1", "x %s %s" % (op, rhs)], True, t + ["decl:mutable"])
        add("var-inferred", [], ["def fin x := 1", "x %s %s" % (op, rhs)], False, t + ["decl:fin"], 1)
        # tuple components
        add("tuple", [], ["def (p, q) := (1, 2)", "q %s %s" % (op, rhs)], True, t + ["decl:mutable"])
        add("tuple", [], ["def fin (p, q) := (1, 2)", "q %s %s" % (op, rhs)], False, t + ["decl:fin"], 1)
        # never defined
        add("undefined", [], ["zz %s %s" % (op, rhs)], False, t + ["decl:none"], 0)
        # parameters
        add("param", ["def g(n: Int) =>", "    n %s %s" % (op, rhs)], ["g(1)"], True, t + ["decl:mutable"])
        add("param", ["def g(fin n: Int) =>", "    n %s %s" % (op, rhs)], ["g(1)"], False, t + ["decl:fin"], ("prelude", 1))
        # for-loop variable (mutable)
        add("for-var", [], ["for i in 0 .. 1 do", "    i %s %s" % (op, rhs)], True, t + ["decl:mutable"])
        # fields through an external receiver
        add("field-ext", K, ["def k := K(1, 2)", "k.a %s %s" % (op, rhs)], True, t + ["decl:mutable", "target:classarg"])
        add("field-ext", K, ["def k := K(1, 2)", "k.b %s %s" % (op, rhs)], False, t + ["decl:fin", "target:classarg", "receiver:external"], 1)
        add("field-ext", K, ["def k := K(1, 2)", "k.c %s %s" % (op, rhs)], True, t + ["decl:mutable", "target:bodyfield"])
        add("field-ext", K, ["def k := K(1, 2)", "k.d %s %s" % (op, rhs)], False, t + ["decl:fin", "target:bodyfield", "receiver:external"], 1)
        # field through a fin receiver variable
        add("field-fin-receiver", K, ["def fin k := K(1, 2)", "k.a %s %s" % (op, rhs)], False, t + ["decl:fin-receiver"], 1)
        # fields through self
        for fld, fin in (("a", False), ("b", True), ("c", False), ("d", True)):
            cls = ["class S(def a: Int, def fin b: Int)", "    def c: Int := 1", "    def fin d: Int := 2", "    def m(self) =>", "        self.%s %s %s" % (fld, op, rhs)]
            add("field-self", cls, ["def s := S(1, 2)", "s.m()"], not fin, t + ["decl:" + ("fin" if fin else "mutable"), "target:" + ("classarg" if fld in "ab" else "bodyfield"), "receiver:self"],
                ("prelude", 4) if fin else None)
        cls = ["class S(def a: Int)", "    def m(fin self) =>", "        self.a %s %s" % (op, rhs)]
        add("field-fin-self", cls, ["def s := S(1)", "s.m()"], False, t + ["decl:fin-self"], ("prelude", 2))
        # a constructor whose self is fin: giving a field its FIRST value is an assignment through a fin self like any other
        cls = ["class Sc", "    def x: Int", "    def __init__(fin self, v: Int) =>", "        self.x %s v" % op]
        add("field-fin-self-ctor", cls, ["def sc := Sc(1)"], False, t + ["decl:fin-self", "in:constructor"], ("prelude", 3))
        cls = ["class Sd", "    def x: Int", "    def y: Int := 0", "    def __init__(fin self, v: Int) =>", "        self.y %s v" % op, "        self.x := v"]
        add("field-fin-self-ctor-defaulted-first", cls, ["def sd := Sd(1)"], False, t + ["decl:fin-self", "in:constructor"], ("prelude", 4))
        cls = ["class Se", "    def x: Int", "    def __init__(self, v: Int) =>", "        self.x %s v" % (op if op == ":=" else ":="), "        self.x %s v" % op]
        add("field-mutable-self-ctor", cls, ["def se := Se(1)"], True, t + ["decl:mutable", "in:constructor"])
        # nested property chain
        chain = ["class In(def v: Int, def fin w: Int)", "class Out(def i: In, def fin j: In)"]
        add("chain", chain, ["def o := Out(In(1, 2), In(3, 4))", "o.i.v %s %s" % (op, rhs)], True, t + ["decl:mutable", "chain:mut.mut"])
        add("chain", chain, ["def o := Out(In(1, 2), In(3, 4))", "o.i.w %s %s" % (op, rhs)], False, t + ["decl:fin", "chain:mut.fin"], 1)
        add("chain", chain, ["def o := Out(In(1, 2), In(3, 4))", "o.j.v %s %s" % (op, rhs)], False, t + ["decl:fin", "chain:fin.mut"], 1)
        add("chain", chain, ["def fin o := Out(In(1, 2), In(3, 4))", "o.i.v %s %s" % (op, rhs)], False, t + ["decl:fin-receiver", "chain:finvar.mut.mut"], 1)
        # ---- shadowing
        add("shadow", [], ["def fin x: Int := 1", "def x: Int := 2", "x %s %s" % (op, rhs)], True, t + ["shadow:fin-then-mutable"])
        add("shadow", [], ["def x: Int := 1", "def fin x: Int := 2", "x %s %s" % (op, rhs)], False, t + ["shadow:mutable-then-fin"], 2)
        add("shadow", [], ["def fin x := 1", "def x := 2", "x %s %s" % (op, rhs)], True, t + ["shadow:fin-then-mutable", "inferred"])
        add("shadow", [], ["def x := 1", "def fin x := 2", "x %s %s" % (op, rhs)], False, t + ["shadow:mutable-then-fin", "inferred"], 2)
        add("shadow", [], ["def fin x: Int := 1", 'def x: Str := "s"', "def y: Int := 1", "y %s %s" % (op, rhs)], True, t + ["shadow:other-type"])
        # a shadowing re-definition inside a branch ends with the branch
        add("shadow-branch", [], ["def sb := True", "def fin x: Int := 1", "if sb then", "    def x: Int := 2", "    x %s %s" % (op, rhs)], True, t + ["shadow:in-branch-use-inside"])
        add("shadow-branch", [], ["def sb := True", "def fin x: Int := 1", "if sb then", "    def x: Int := 2", "    print(x)", "x %s %s" % (op, rhs)], False, t + ["shadow:in-branch-use-after"], 5)
        add("shadow-branch", [], ["def sb := True", "def x: Int := 1", "if sb then", "    def fin x: Int := 2", "    print(x)", "x %s %s" % (op, rhs)], True, t + ["shadow:fin-in-branch-use-after"])
        add("shadow-branch", [], ["def sb := True", "def x: Int := 1", "if sb then", "    def fin x: Int := 2", "    x %s %s" % (op, rhs)], False, t + ["shadow:fin-in-branch-use-inside"], 4)
        add("shadow-param", ["def g(fin n: Int) =>", "    def n: Int := 5", "    n %s %s" % (op, rhs)], ["g(1)"], True, t + ["shadow:fin-param-then-mutable"])
        add("shadow-param", ["def g(n: Int) =>", "    def fin n: Int := 5", "    n %s %s" % (op, rhs)], ["g(1)"], False, t + ["shadow:param-then-fin"], ("prelude", 2))
    # tuple reassignment, flat and nested, with the fin variable at every position
    shapes = {"flat2": ("(%s, %s)", "(4, 5)", 2), "flat3": ("(%s, %s, %s)", "(4, 5, 6)", 3), "nest-left": ("((%s, %s), %s)", "((4, 5), 6)", 3),
              "nest-right": ("(%s, (%s, %s))", "(4, (5, 6))", 3), "nest-both": ("((%s, %s), (%s, %s))", "((4, 5), (6, 7))", 4)}
    names = ["ta", "tb", "tc", "td"]
    for sname, (lhs, rhs, n) in shapes.items():
        for fin_at in [None] + list(range(n)):
            defs = ["def %s%s: Int := %d" % ("fin " if i == fin_at else "", names[i], i) for i in range(n)]
            body = defs + [(lhs % tuple(names[:n])) + " := " + rhs]
            add("tuple-reassign", [], body, fin_at is None, ["tuple:" + sname, "fin-at:%s" % fin_at], None if fin_at is None else n)
            # a fin parameter inside the tuple
            if fin_at is not None and fin_at == n - 1:
                fn = ["def tg(fin %s: Int) =>" % names[fin_at]] + ctxgen.indent(["def %s: Int := %d" % (names[i], i) for i in range(n) if i != fin_at] + [(lhs % tuple(names[:n])) + " := " + rhs])
                add("tuple-reassign-param", fn, ["tg(1)"], False, ["tuple:" + sname, "fin-at:param"], ("prelude", len(fn) - 1))
    # right type required for the accepting half
    add("var-float-div", [], ["def x: Float := 1.5", "x /= 2.0"], True, ["op:/=", "decl:mutable"])
    add("var-float-div", [], ["def fin x: Float := 1.5", "x /= 2.0"], False, ["op:/=", "decl:fin"], 1)
    return out


def cases(tier, seed):
    depth = 1 if tier == "quick" else 2
    yield from ctxgen.cases_for(payloads(tier), depth, "c07")
    if tier != "quick":
        # thorough: every depth-1 case also behind each independent, legal noise prefix (ctxgen.NOISE): the verdict must not change
        yield from ctxgen.cases_for(payloads(tier), 1, "c07", noise=tuple(ctxgen.NOISE), noise_only=True)
    # the scope machine: every statement sequence over {def, def fin, shadowing def, assign, typed uses, 7 block kinds} within a size bound
    yield from scopeseq.cases("C07", tier)


def evaluate(case, drv):
    res = evaluate_verdict(case, drv)
    res.pop("result", None)
    if case["id"].endswith("305"):
        res["sample"] = {"id": case["id"], "expect": case["expect"], "mamba": case["src"]}
    return res


def coverage(tier, agg):
    return scopeseq.machine_stats("C07", tier)
