"""python3 -m mv.probe FILE|-  [--run]: transpile with both settings and show/execute the output."""
import sys
from .pool import Driver
from .pyside import run_python


def main():
    path = sys.argv[1]
    src = sys.stdin.read() if path == "-" else open(path).read()
    drv = Driver()
    for ann in (False, True):
        r = drv.transpile1(src, annotate=ann)
        print("=== annotate=%s verdict=%s us=%s" % (ann, r["v"], r.get("us")))
        if r["v"] == "ok":
            print(r["out"][0])
            if "--run" in sys.argv:
                x = run_python(r["out"][0])
                print("--- run:", x)
        elif r["v"] == "err":
            for e in r["errs"]:
                print(e)
        else:
            print(r)
    drv.stop()


main()
