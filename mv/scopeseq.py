"""Scope machine: all statement sequences over a small alphabet, up to a size and nesting bound, against a
reference model of Mamba's block scoping (C07, C09; wrong-type reassignments go to C05).

A *state* of the reference model is a stack of scopes, each mapping the one tracked name `v` to
(mutable, type).  The alphabet:

    D   def v: Int := 1          F   def fin v: Int := 2        S   def v: Str := "s"     (re-definitions shadow)
    G   def fin v: Int           N   def v: Int                 (declared without a value: a later read is unspecified, the
                                                                 program is then not generated; assigning to G is assigning to a fin)
    A   v := 3                   U   def u<k>: Int := idi(v)    T   def t<k>: Str := ids(v)
    blocks (push a scope, run the inner sequence, pop it):
    I   if c then <seq>                      J   if c then <seq> else print         K   if c then print else <seq>
    L   for i in 0 .. 1 do <seq>             W   while k < 1 do k := k + 1; <seq>
    M   match m / 1 => <seq>; print / _ => print                 H   r(1) handle / e: E => <seq>; print

Every sequence with at most N statements (a block counts 1 + its inner statements) and nesting <= d is generated,
hosted at top level, in a function body and in a method body.  The model gives, per statement, whether it is legal:
    A : v visible, mutable, of type Int     (else: undefined-assign / fin-assign / wrong-type-assign)
    U : v visible and Int                   (else: undefined-use / wrong-type-use)
    T : v visible and Str                   (else: undefined-use / wrong-type-use)
A program is expected to be accepted iff every statement is legal.  The *first* illegal statement decides which
property judges a rejected-by-model program: undefined-use / wrong-type-use -> C09, undefined-assign / fin-assign -> C07,
wrong-type-assign -> C05; a legal program is judged by C07 if it assigns, else by C09.
"""

IND = "    "
SIMPLE = "DFSGNAUT"
BLOCKS_QUICK = "IJLM"
BLOCKS_ALL = "IJKLWMH"


def sequences(n, depth, blocks):
    """all sequences (tuples) of statements with exactly n statements in total"""
    if n == 0:
        yield ()
        return
    for s in SIMPLE:
        for rest in sequences(n - 1, depth, blocks):
            yield (s,) + rest
    if depth > 0:
        for b in blocks:
            for k in range(1, n):
                for inner in sequences(k, depth - 1, blocks):
                    for rest in sequences(n - 1 - k, depth, blocks):
                        yield ((b, inner),) + rest


class Model:
    def __init__(self):
        self.stack = [{}]
        self.faults = []   # (statement index in pre-order, reason)
        self.k = 0
        self.out = []      # what the program prints (every block body runs exactly once)
        self.unspecified = False   # a declared-only variable is read

    def lookup(self):
        for sc in reversed(self.stack):
            if "v" in sc:
                return sc["v"]
        return None

    def run(self, seq):
        for st in seq:
            idx = self.k
            self.k += 1
            if isinstance(st, tuple):
                self.stack.append({})
                self.run(st[1])
                self.stack.pop()
                if st[0] in "MH":
                    self.out.append("%s%d" % ("a" if st[0] == "M" else "h", idx))
                continue
            cur = self.lookup()
            if st == "D":
                self.stack[-1]["v"] = [True, "Int", "1"]
            elif st == "F":
                self.stack[-1]["v"] = [False, "Int", "2"]
            elif st == "S":
                self.stack[-1]["v"] = [True, "Str", "s"]
            elif st == "G":
                self.stack[-1]["v"] = [False, "Int", None]
            elif st == "N":
                self.stack[-1]["v"] = [True, "Int", None]
            elif st == "A":
                if cur is None:
                    self.faults.append((idx, "undefined-assign"))
                elif not cur[0]:
                    self.faults.append((idx, "fin-assign"))
                elif cur[1] != "Int":
                    self.faults.append((idx, "wrong-type-assign"))
                else:
                    cur[2] = "3"   # the cell found by the lookup: an assignment in a nested block changes the outer variable
            elif st in "UT":
                want = "Int" if st == "U" else "Str"
                if cur is None:
                    self.faults.append((idx, "undefined-use"))
                elif cur[1] != want:
                    self.faults.append((idx, "wrong-type-use"))
                elif cur[2] is None:
                    self.unspecified = True
                else:
                    self.out.append(cur[2])


def flat_prints(seq):
    """what the program prints if every definition of v lands in ONE scope (Python's function scoping): used only to
    recognise the known block-scoping finding C01-F4 precisely"""
    out, cell, k = [], [None], [0]

    def run(q):
        for st in q:
            idx = k[0]
            k[0] += 1
            if isinstance(st, tuple):
                run(st[1])
                if st[0] in "MH":
                    out.append("%s%d" % ("a" if st[0] == "M" else "h", idx))
            elif st in "DFSGN":
                cell[0] = {"D": "1", "F": "2", "S": "s", "G": "None", "N": "None"}[st]   # a declaration without value is emitted as `v = None`
            elif st == "A":
                cell[0] = "3"
            else:
                out.append(cell[0])
    run(seq)
    return out + ["end"]


PRELUDE = ["def idi(x: Int) -> Int => x", "def ids(x: Str) -> Str => x", "class SqE(msg: Str): Exception(msg)",
           "def sqr(n: Int) -> Int raise [SqE] =>", "    if n > 0 then", '        raise SqE("r")', "    n"]


class Render:
    def __init__(self):
        self.k = 0
        self.line_of = {}   # pre-order statement index -> index into lines

    def seq(self, seq, ind, lines):
        for st in seq:
            idx = self.k
            self.k += 1
            p = IND * ind
            self.line_of[idx] = len(lines)
            if isinstance(st, tuple):
                b, inner = st
                if b == "I":
                    lines.append(p + "if sc then")
                    self.seq(inner, ind + 1, lines)
                elif b == "J":
                    lines.append(p + "if sc then")
                    self.seq(inner, ind + 1, lines)
                    lines += [p + "else", p + IND + 'print("e%d")' % idx]
                elif b == "K":
                    lines += [p + "if sn then", p + IND + 'print("t%d")' % idx, p + "else"]
                    self.seq(inner, ind + 1, lines)
                elif b == "L":
                    lines.append(p + "for i%d in 0 .. 1 do" % idx)
                    self.seq(inner, ind + 1, lines)
                elif b == "W":
                    lines += [p + "def w%d := 0" % idx, p + "while w%d < 1 do" % idx, p + IND + "w%d := w%d + 1" % (idx, idx)]
                    self.line_of[idx] = len(lines) - 2
                    self.seq(inner, ind + 1, lines)
                elif b == "M":
                    lines += [p + "match sm", p + IND + "1 =>"]
                    self.seq(inner, ind + 2, lines)
                    lines += [p + IND * 2 + 'print("a%d")' % idx, p + IND + "_ =>", p + IND * 2 + 'print("o%d")' % idx]
                elif b == "H":
                    lines += [p + "sqr(1) handle", p + IND + "e%d: SqE =>" % idx]
                    self.seq(inner, ind + 2, lines)
                    lines += [p + IND * 2 + 'print("h%d")' % idx]
                continue
            text = {"D": "def v: Int := 1", "F": "def fin v: Int := 2", "S": 'def v: Str := "s"', "A": "v := 3", "G": "def fin v: Int", "N": "def v: Int",
                    "U": "def u%d: Int := idi(v)" % idx, "T": "def t%d: Str := ids(v)" % idx}[st]
            lines.append(p + text)
            if st in "UT":
                lines.append(p + "print(%s%d)" % (st.lower(), idx))


def name_of(seq):
    return "".join(s if isinstance(s, str) else "%s[%s]" % (s[0], name_of(s[1])) for s in seq)


HOSTS = ("top", "fun", "method")


def render(seq, host):
    r = Render()
    body = []
    head = ["def sc := True", "def sn := False", "def sm := 1"]
    if host == "top":
        lines = PRELUDE + head
        off, ind = len(lines), 0
        r.seq(seq, 0, body)
        lines = lines + body + ['print("end")']
    elif host == "fun":
        lines = PRELUDE + ["def host() =>"] + [IND + h for h in head]
        off = len(lines)
        r.seq(seq, 1, body)
        lines = lines + body + [IND + 'print("end")', "host()"]
    else:
        lines = PRELUDE + ["class Host", IND + "def run(self) =>"] + [IND * 2 + h for h in head]
        off = len(lines)
        r.seq(seq, 2, body)
        lines = lines + body + [IND * 2 + 'print("end")', "def ho := Host()", "ho.run()"]
    return "\n".join(lines) + "\n", {i: off + l + 1 for i, l in r.line_of.items()}


def has_assign(seq):
    return any((s == "A") if isinstance(s, str) else has_assign(s[1]) for s in seq)


JUDGE = {"undefined-use": "C09", "wrong-type-use": "C09", "undefined-assign": "C07", "fin-assign": "C07", "wrong-type-assign": "C05"}


def useful(seq):
    """a sequence must contain at least one judged statement (A, U or T)"""
    return any((s in "AUT") if isinstance(s, str) else useful(s[1]) for s in seq)


def cases(prop, tier, hosts=None):
    """cases judged by property `prop` ('C05' | 'C07' | 'C09'); prop 'C01' = every legal program, with the lines it must print"""
    fam = prop.lower() + ".seq"
    if tier == "quick":
        nmax, depth, blocks = 4, 1, BLOCKS_QUICK
    else:
        nmax, depth, blocks = 5, 2, BLOCKS_ALL
    n = 0
    for total in range(1, nmax + 1):
        for seq in sequences(total, depth, blocks):
            if not useful(seq) and not (total == 4 and isinstance(seq[1] if len(seq) > 1 else None, tuple)):
                continue   # sequences of definitions only say little - except that they must be accepted: kept for the shape 'x B[..] y' at size 4
            m = Model()
            m.run(seq)
            if m.unspecified:
                continue
            if m.faults:
                judge = JUDGE[m.faults[0][1]]
            else:
                judge = "C07" if has_assign(seq) else "C09"
            if judge != prop and not (prop == "C01" and not m.faults):
                continue
            nm = name_of(seq)
            if len(m.faults) > 2 or (len(m.faults) == 2 and total == nmax):
                continue   # the largest size keeps single-fault and fault-free programs only
            for host in (hosts or HOSTS):
                if host != "top" and total == nmax:
                    continue
                src, line_of = render(seq, host)
                n += 1
                tags = ["seq:" + nm, "host:" + host, "size:%d" % total]
                if m.faults:
                    tags += ["reason:" + m.faults[0][1], "faults:%d" % len(m.faults)]
                yield {"id": "%s-%d" % (fam, n), "family": fam + "." + host, "src": src, "expect": "err" if m.faults else "ok",
                       "prints": None if m.faults else m.out + ["end"], "alt_prints": None if m.faults else flat_prints(seq),
                       "fault_line": line_of[m.faults[0][0]] if m.faults else None, "tags": tags + ["expect:" + ("err" if m.faults else "ok")]
                       + (["run"] if not m.faults else [])}


def machine_stats(prop, tier):
    """what the reference model went through for the sequences judged by `prop`: sequences, statements executed by the model
    (transitions) and distinct model states (the stack of scopes before each statement, with mutability / type / value of v)"""
    if tier == "quick":
        nmax, depth, blocks = 4, 1, BLOCKS_QUICK
    else:
        return {}   # the thorough enumeration is not repeated for statistics
    states, transitions, nseq = set(), 0, 0

    def walk(seq, stack):
        nonlocal transitions
        for st in seq:
            states.add(tuple(tuple(sorted((k, tuple(v)) for k, v in sc.items())) for sc in stack))
            transitions += 1
            if isinstance(st, tuple):
                stack.append({})
                walk(st[1], stack)
                stack.pop()
            elif st in "DFSGN":
                stack[-1]["v"] = {"D": [True, "Int", "1"], "F": [False, "Int", "2"], "S": [True, "Str", "s"], "G": [False, "Int", None], "N": [True, "Int", None]}[st]
            elif st == "A":
                for sc in reversed(stack):
                    if "v" in sc:
                        if sc["v"][0] and sc["v"][1] == "Int":
                            sc["v"] = [True, "Int", "3"]
                        break

    for total in range(1, nmax + 1):
        for seq in sequences(total, depth, blocks):
            nseq += 1
            walk(seq, [{}])
    return {"scope_machine": {"sequences_enumerated": nseq, "model_transitions": transitions, "distinct_model_states": len(states),
                              "alphabet": "D F S G N A U T + blocks " + blocks, "bound": "<= %d statements, nesting <= %d" % (nmax, depth)}}


if __name__ == "__main__":
    import sys
    import collections
    for tier in ("quick", "thorough"):
        c = collections.Counter()
        for p in ("C05", "C07", "C09"):
            for case in cases(p, tier):
                c[(p, case["expect"])] += 1
        print(tier, dict(c), sum(c.values()))
    if len(sys.argv) > 1:
        for case in cases("C07", "quick"):
            if sys.argv[1] in case["tags"]:
                print(case["src"])
                print(case["tags"], case["fault_line"])
                break
