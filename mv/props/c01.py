"""C01 - accepted programs keep their meaning when run as the emitted Python.

Every program of the M0 families (expressions in every expression context,
ranges, control-flow nestings, function bodies / implicit return, assignment
from control flow, classes, raise/handle) is transpiled with annotate off and on;
the emitted Python is executed and its behaviour (printed lines + class of the
uncaught exception) compared with the reference rendering executed by CPython.
"""
import re

from .. import gen_prog, scopeseq
from ..pyside import run_python, behaviour

ID = "C01"
LEVEL = "exploration"
CHUNK = 24
RULE = ("all programs of the bounded M0 families (see mv/gen_prog.py; tier selects depth/alphabets) x annotate in {off,on}; "
        "non-trivial = accepted by the pipeline in at least one setting and its output executed against the reference; "
        "distinct by program text")
ASSUMPTIONS = [
    "the reference behaviour is the explicit reference rendering of the same M0 tree (mv/lang.py to_ref) executed by CPython: Mamba's documented operators are Python's",
    "programs the pipeline rejects are not C01 cases (counted per family; over-rejection is C05's business)",
    "operands are explicitly parenthesised in the Mamba source except in the `noparen` family, which only uses operator pairs whose documented precedence levels differ strictly and agree with Python's",
]


def cases(tier, seed):
    yield from gen_prog.pool(tier)
    # the scope machine (mv/scopeseq.py): every legal statement sequence, with the lines the reference scope model says it prints
    for c in scopeseq.cases("C01", tier):
        c["family"] = c["family"].replace("c01.", "", 1)
        c["ref"] = "".join("print(%r)\n" % l for l in c["prints"])
        yield c


STMT_IF_IN_EXPR = re.compile(r"[=+\-*/%(\[,<>] *if [^\n]*: *\n|\belse +[^\n]*[=+\-*/%(\[,] *if [^\n]*: *\n")


def output_tags(out_src):
    """features of the emitted text used to delimit known findings"""
    tags = []
    if STMT_IF_IN_EXPR.search(out_src):
        tags.append("out:stmt-if-in-expr")
    if re.search(r"except [\w.]+ as [\d\"(]", out_src):
        tags.append("out:except-as-literal")
    elif re.search(r"except [\w.]+ as [^\w\s]", out_src):
        tags.append("out:except-as-literal")   # any non-identifier binder ('+err')
    if re.search(r"(\breturn|=|\+|-|\*|/|\(|,)[ \t]*\+?[ \t]*(match|if) [^\n]*:[ \t]*\n", out_src + "\n") or re.search(r"(^|\n)[ \t]*[-+][ \t]*(match|if) [^\n]*:[ \t]*\n", out_src + "\n"):
        tags.append("out:stmt-match-or-if-in-expr")
    if re.search(r"\n[ \t]*case [^\n:]*(\+| in | is |\(\)\()[^\n:]*:", "\n" + out_src):
        tags.append("out:expression-in-pattern")
    if re.search(r"(^|\n)[ \t]*(from [\w.]+ )?import[ \t]*(\n|$)", out_src):
        tags.append("out:empty-import")
    if re.search(r"def \w+\([^)\n]*\*\w+(: \w+)? = |def \w+\([^)\n]*\*\w+[^)\n]*\*\w+|def \w+\([^)\n]*= [^,)\n]+, \w+(: [\w\[\]]+)?[,)]", out_src):
        tags.append("out:bad-parameter-list")
    elif re.search(r"lambda [^:\n]*\*\w+ = |lambda [^:\n]*\*\w+[^:\n]*\*\w+|lambda [^:\n]*= [^,:\n]+, \*?\w+ *[,:]", out_src):
        tags.append("out:bad-parameter-list")   # the same three shapes in the parameter list of a lambda
    return tags


def compare(case, ann, out_src, ref_b):
    got = run_python(out_src)
    if got["compile_error"]:
        return {"family": "c01." + case["family"], "kind": "emitted-python-invalid", "detail": got["compile_error"],
                "tags": case["tags"] + ["annotate:%s" % ("on" if ann else "off")] + output_tags(out_src), "observed": out_src[:1500]}
    if got["timeout"]:
        return {"family": "c01." + case["family"], "kind": "emitted-python-hangs", "detail": "deadline",
                "tags": case["tags"] + ["annotate:%s" % ("on" if ann else "off")]}
    gb = behaviour(got)
    if gb != ref_b:
        tags = case["tags"] + ["annotate:%s" % ("on" if ann else "off")]
        if gb[1] != ref_b[1]:
            tags.append("exc:%s" % gb[1])
        if case.get("alt_prints") is not None and gb == (tuple(case["alt_prints"]), None):
            tags.append("out:function-scoped")   # exactly what Python's function scoping of the same statements prints (C01-F4)
        return {"family": "c01." + case["family"], "kind": "behaviour-differs",
                "detail": "expected %s %s, got %s %s (%s)" % (list(ref_b[0])[:12], ref_b[1], list(gb[0])[:12], gb[1], got["exc_msg"][:120]),
                "tags": tags, "observed": out_src[:1500]}
    return None


def evaluate(case, drv):
    res = {"fail": [], "nontrivial": False, "stats": {}, "key": case["src"], "evals": 2}
    ref = run_python(case["ref"])
    if ref["compile_error"] or ref["timeout"]:
        return {"machinery": "reference rendering broken for %s: %s\n%s" % (case["id"], ref["compile_error"] or "timeout", case["ref"])}
    ref_b = behaviour(ref)
    fam = case["family"].split(".")[0]
    for ann in (False, True):
        r = drv.transpile1(case["src"], annotate=ann)
        if r["v"] == "err":
            res["stats"]["c01.%s.rejected" % fam] = res["stats"].get("c01.%s.rejected" % fam, 0) + 1
            continue
        if r["v"] != "ok":
            res["fail"].append({"family": "c01." + case["family"], "kind": "crash-" + r["v"], "detail": str(r)[:300], "tags": case["tags"]})
            continue
        res["stats"]["c01.%s.accepted" % fam] = res["stats"].get("c01.%s.accepted" % fam, 0) + 1
        res["nontrivial"] = True
        f = compare(case, ann, r["out"][0], ref_b)
        if f:
            res["fail"].append(f)
    res["outcome"] = "exc:%s" % ref_b[1] if ref_b[1] else "lines:%d" % min(len(ref_b[0]), 9)
    if case["id"][-2:] == "17":
        res["sample"] = {"id": case["id"], "mamba": case["src"]}
    return res
