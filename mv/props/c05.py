"""C05 - declared signatures are enforced (both directions).

contexts (depth 1 quick / 2 thorough) x payload kinds x type pairs: function /
method / constructor call, explicit __init__, arities with defaults, return
statement, implicit last expression, annotated variable, field, reassignment,
argument that is itself a call.  conforming <=> T <= P in the documented order
(T == P, Int <= Float, B <= A); every other pair / arity is a single-point mutant.
"""
from .. import ctxgen, scopeseq
from ..staticprop import evaluate_verdict

ID = "C05"
LEVEL = "exploration"
CHUNK = 32
RULE = ("complete product contexts x payload kinds x type pairs (conforming and every single non-conforming variant); expectation by "
        "construction; non-trivial = every case (each is a verdict comparison on a distinct program); distinct by source text")
ASSUMPTIONS = ["subtyping as documented: Int <: Float <: Complex, class inheritance, Any; Bool is not a subtype of Int",
               "the checker does not depend on annotate, so programs are checked with annotate off"]

TYPES = ["Int", "Float", "Str", "Bool", "A", "B", "U"]
VAL = {"Int": "1", "Float": "1.5", "Str": '"s"', "Bool": "True", "A": "A()", "B": "B()", "U": "U()"}
CLASSES = ["class A", "    def ma(self) -> Int => 1", "class B: A", "    def mb(self) -> Int => 2", "class U", "    def mu(self) -> Int => 3"]


def conforms(t, p):
    return t == p or (t, p) in (("Int", "Float"), ("B", "A"))


def payloads(tier):
    out = []

    def add(kind, prelude, body, ok, tags, fault=None, contexts=None):
        p = {"kind": kind, "prelude": CLASSES + prelude, "body": body, "expect": "ok" if ok else "err", "tags": tags, "fault": fault}
        if contexts:
            p["contexts"] = contexts
        elif tier == "quick" and (kind.startswith("carrier-") or "-result-" in kind or kind.endswith("-field")):
            p["contexts"] = ("top", "fun", "then", "arm", "for")   # quick: the later payload families in 5 of the 9 contexts
        out.append(p)

    for P in TYPES:
        for T in TYPES:
            ok = conforms(T, P)
            tg = ["param:" + P, "arg:" + T]
            v = VAL[T]
            add("call", ["def pf(x: %s) -> Int => 1" % P], ["def pr: Int := pf(%s)" % v], ok, tg, 0)
            add("method-call", ["class PM", "    def m(self, x: %s) -> Int => 1" % P], ["def pmo := PM()", "def pr: Int := pmo.m(%s)" % v], ok, tg, 1)
            add("ctor-args", ["class PC(def x: %s)" % P], ["def pc := PC(%s)" % v], ok, tg, 0)
            add("ctor-init", ["class PI", "    def v: %s" % P, "    def __init__(self, x: %s) =>" % P, "        self.v := x"], ["def pi := PI(%s)" % v], ok, tg, 0)
            add("annotated-var", [], ["def pv: %s := %s" % (P, v)], ok, tg, 0)
            add("reassign", [], ["def pm: %s := %s" % (P, VAL[P]), "pm := %s" % v], ok, tg, 1)
            add("field-assign", ["class PF", "    def f: %s := %s" % (P, VAL[P])], ["def pfo := PF()", "pfo.f := %s" % v], ok, tg, 1)
            add("arg-is-call", ["def pf(x: %s) -> Int => 1" % P, "def pg() -> %s => %s" % (T, v)], ["def pr: Int := pf(pg())"], ok, tg, 0)
            add("second-arg", ["def pf2(a: Int, x: %s) -> Int => a" % P], ["def pr: Int := pf2(1, %s)" % v], ok, tg, 0)
            # return / implicit last expression / field initialiser: the rule instance is inside a definition
            add("return", ["def prf() -> %s =>" % P, "    return %s" % v], ["prf()"], ok, tg, ("prelude", len(CLASSES) + 1))
            add("return-in-branch", ["def prb(c: Bool) -> %s =>" % P, "    if c then", "        return %s" % VAL[P], "    else", "        return %s" % v], ["prb(True)"], ok, tg,
                ("prelude", len(CLASSES) + 4))
            add("implicit-last", ["def plf() -> %s => %s" % (P, v)], ["plf()"], ok, tg, ("prelude", len(CLASSES)))
            add("implicit-last-block", ["def plb() -> %s =>" % P, '    print("x")', "    %s" % v], ["plb()"], ok, tg, ("prelude", len(CLASSES) + 2))
            add("method-return", ["class PR", "    def m(self) -> %s => %s" % (P, v)], ["def pro := PR()", "pro.m()"], ok, tg, ("prelude", len(CLASSES) + 1))
            add("field-init", ["class PG", "    def f: %s := %s" % (P, v)], ["def pgo := PG()"], ok, tg, ("prelude", len(CLASSES) + 1))
            # the value comes from a call / method call whose declared result type is T
            rp = ["def rg() -> %s => %s" % (T, v), "class RM", "    def m(self) -> %s => %s" % (T, v)]
            add("implicit-last-call", rp + ["def rl() -> %s => rg()" % P], ["rl()"], ok, tg, ("prelude", len(CLASSES) + 3))
            add("implicit-last-method-call", rp + ["def rl(o: RM) -> %s => o.m()" % P], ["rl(RM())"], ok, tg, ("prelude", len(CLASSES) + 3))
            add("implicit-last-block-method-call", rp + ["def rl(o: RM) -> %s =>" % P, '    print("x")', "    o.m()"], ["rl(RM())"], ok, tg, ("prelude", len(CLASSES) + 5))
            add("return-method-call", rp + ["def rl(o: RM) -> %s =>" % P, "    return o.m()"], ["rl(RM())"], ok, tg, ("prelude", len(CLASSES) + 4))
            add("init-from-method-call", rp, ["def rmo := RM()", "def pv: %s := rmo.m()" % P], ok, tg, 1)
            add("init-from-call", rp, ["def pv: %s := rg()" % P], ok, tg, 0)
            add("arg-is-method-call", rp + ["def pf(x: %s) -> Int => 1" % P], ["def rmo := RM()", "def pr: Int := pf(rmo.m())"], ok, tg, 1)
            # the use stands BEHIND a return / raise in the same block: unreachable, but checked like any other statement
            ur = ["def pf(x: %s) -> Int => 1" % P, "class UE(msg: Str): Exception(msg)"]
            add("call-after-return", ur + ["def ar(c: Bool) -> Int =>", "    if c then", "        return 1", "        def pr: Int := pf(%s)" % v, "    2"], ["ar(True)"], ok, tg, ("prelude", len(CLASSES) + 5))
            add("call-after-raise", ur + ["def ar(c: Bool) -> Int raise [UE] =>", "    if c then", '        raise UE("x")', "        def pr: Int := pf(%s)" % v, "    2"], ["def ares: Int := ar(False) handle", "    ue: UE => 0"], ok, tg,
                ("prelude", len(CLASSES) + 5))
            add("init-after-return-at-function-level", ur + ["def ar() -> Int =>", "    return 1", "    def pv: %s := %s" % (P, v)], ["ar()"], ok, tg, ("prelude", len(CLASSES) + 4))
            add("return-after-return", ur + ["def ar(c: Bool) -> %s =>" % P, "    if c then", "        return %s" % VAL[P], "        return %s" % v, "    %s" % VAL[P]], ["ar(True)"], ok, tg,
                ("prelude", len(CLASSES) + 5))
            # the value is a FIELD read whose declared type is T
            fp = ["class RF", "    def f: %s := %s" % (T, v)]
            add("implicit-last-field", fp + ["def rl(o: RF) -> %s => o.f" % P], ["rl(RF())"], ok, tg, ("prelude", len(CLASSES) + 2))
            add("implicit-last-block-field", fp + ["def rl(o: RF) -> %s =>" % P, '    print("x")', "    o.f"], ["rl(RF())"], ok, tg, ("prelude", len(CLASSES) + 4))
            add("return-field", fp + ["def rl(o: RF) -> %s =>" % P, "    return o.f"], ["rl(RF())"], ok, tg, ("prelude", len(CLASSES) + 3))
            add("init-from-field", fp, ["def rfo := RF()", "def pv: %s := rfo.f" % P], ok, tg, 1)
            add("reassign-from-field", fp, ["def rfo := RF()", "def pm: %s := %s" % (P, VAL[P]), "pm := rfo.f"], ok, tg, 2)
            add("reassign-from-method-call", rp, ["def rmo := RM()", "def pm: %s := %s" % (P, VAL[P]), "pm := rmo.m()"], ok, tg, 2)
            add("arg-is-field", fp + ["def pf(x: %s) -> Int => 1" % P], ["def rfo := RF()", "def pr: Int := pf(rfo.f)"], ok, tg, 1)
            # the receiver of the method call / field read is itself a call result (a function's result, a constructor call): its
            # access constraint is deferred until the receiver has a type
            cp = rp + fp + ["def mk() -> RM => RM()", "def mkf() -> RF => RF()"]
            add("init-from-call-result-method", cp, ["def pv: %s := mk().m()" % P], ok, tg, 0)
            add("init-from-ctor-result-method", cp, ["def pv: %s := RM().m()" % P], ok, tg, 0)
            add("init-from-call-result-field", cp, ["def pv: %s := mkf().f" % P], ok, tg, 0)
            add("arg-is-call-result-method", cp + ["def pf(x: %s) -> Int => 1" % P], ["def pr: Int := pf(mk().m())"], ok, tg, 0)
            add("arg-is-ctor-result-method", cp + ["def pf(x: %s) -> Int => 1" % P], ["def pr: Int := pf(RM().m())"], ok, tg, 0)
            add("implicit-last-call-result-method", cp + ["def rl() -> %s => mk().m()" % P], ["rl()"], ok, tg, ("prelude", len(CLASSES) + 7))
            add("implicit-last-ctor-result-method", cp + ["def rl() -> %s => RM().m()" % P], ["rl()"], ok, tg, ("prelude", len(CLASSES) + 7))
            add("return-call-result-method", cp + ["def rl() -> %s =>" % P, "    return mk().m()"], ["rl()"], ok, tg, ("prelude", len(CLASSES) + 8))
            add("reassign-from-call-result-method", cp, ["def pm: %s := %s" % (P, VAL[P]), "pm := mk().m()"], ok, tg, 1)
            add("self-field-return", ["class RS2", "    def f: %s := %s" % (T, v), "    def get(self) -> %s => self.f" % P], ["def rso := RS2()", "rso.get()"], ok, tg, ("prelude", len(CLASSES) + 2))
            add("self-method-return", ["class RS", "    def inner(self) -> %s => %s" % (T, v), "    def outer(self) -> %s => self.inner()" % P], ["def rso := RS()", "rso.outer()"], ok, tg,
                ("prelude", len(CLASSES) + 2))
    # the value is the tail of a compound construct (handle / if / match, in block form and nested): every slot that can be the
    # value of the construct is held to the declared type - the handled expression as much as the arms
    car_pre = ["class HE(msg: Str): Exception(msg)"]
    car_types = TYPES if tier != "quick" else ["Int", "Float", "Str", "A", "B"]
    for P in car_types:
        for T in car_types:
            ok = conforms(T, P)
            v, g = VAL[T], VAL[P]
            hp = car_pre + ["def hr(x: %s) -> %s raise [HE] => x" % (P, P)]
            carriers = {
                "handle-try": ["%s handle" % v, "    he: HE => %s" % g],
                "handle-arm": ["hr(%s) handle" % g, "    he: HE => %s" % v],
                "handle-arm-block": ["hr(%s) handle" % g, "    he: HE =>", '        print("x")', "        %s" % v],
                "if-then-block": ["if hc then", '    print("x")', "    %s" % v, "else", "    %s" % g],
                "if-else-block": ["if hc then", "    %s" % g, "else", '    print("x")', "    %s" % v],
                "match-arm": ["match hn", "    1 => %s" % g, "    _ => %s" % v],
                "match-arm-block": ["match hn", "    1 => %s" % g, "    _ =>", '        print("x")', "        %s" % v],
                "else-handle-try": ["if hc then", "    %s" % g, "else", "    %s handle" % v, "        he: HE => %s" % g],
                "both-handle-else-try": ["if hc then", "    hr(%s) handle" % g, "        he: HE => %s" % g, "else", "    %s handle" % v, "        he: HE => %s" % g],
                "both-handle-then-try": ["if hc then", "    %s handle" % v, "        he: HE => %s" % g, "else", "    hr(%s) handle" % g, "        he: HE => %s" % g],
                "both-handle-else-arm": ["if hc then", "    hr(%s) handle" % g, "        he: HE => %s" % g, "else", "    hr(%s) handle" % g, "        he: HE => %s" % v],
                "arm-handle-try": ["match hn", "    1 => %s" % g, "    _ =>", "        %s handle" % v, "            he: HE => %s" % g],
            }
            for cname, car in carriers.items():
                tg = ["param:" + P, "arg:" + T, "carrier:" + cname]
                fl = [i for i, l in enumerate(car) if l.strip().startswith(v) or l.strip().endswith("=> " + v)]
                fl = fl[-1] if cname.endswith(("else-try", "else-arm", "arm-block", "else-block", "match-arm", "arm-handle-try", "else-handle-try")) else fl[0]
                add("carrier-init", hp, ["def hc := True", "def hn := 1", "def pv: %s := %s" % (P, car[0])] + car[1:], ok, tg, 2 + fl)
                add("carrier-implicit-last", hp + ["def cl(hc: Bool, hn: Int) -> %s =>" % P] + ctxgen.indent(car), ["cl(True, 1)"], ok, tg, ("prelude", len(CLASSES) + len(hp) + 1 + fl))
                add("carrier-implicit-last-after-stmt", hp + ["def cl(hc: Bool, hn: Int) -> %s =>" % P, '    print("b")'] + ctxgen.indent(car), ["cl(True, 1)"], ok, tg,
                    ("prelude", len(CLASSES) + len(hp) + 2 + fl))
                if cname in ("handle-try", "handle-arm", "handle-arm-block"):
                    continue  # 'x := e handle' is not in the grammar: a reassignment cannot be guarded directly
                add("carrier-reassign", hp, ["def hc := True", "def hn := 1", "def pm: %s := %s" % (P, g), "pm := %s" % car[0]] + car[1:], ok, tg, 3 + fl)
    # sibling branches that each define a same-named local of an unrelated type (shadowing offsets per branch)
    sib_pre = ["class SE1(msg: Str): Exception(msg)", "class SE2(msg: Str): Exception(msg)", "def sr(n: Int) -> Int raise [SE1, SE2] =>", "    if n = 1 then", '        raise SE1("a")',
               "    if n = 2 then", '        raise SE2("b")', "    n", "def takes_int(x: Int) -> Int => x", "def takes_str(x: Str) -> Str => x"]
    nests = {
        "none": [],
        "if-else": ["if sc then", "    takes_int(loc)", "else", "    takes_int(loc + 1)"],
        "match": ["match sn", "    1 => takes_int(loc)", "    _ => takes_int(loc + 1)"],
        "handle": ["sr(0) handle", "    se: SE1 => takes_int(loc)", "    se: SE2 => takes_int(loc + 1)"],
    }
    for nname, nest in nests.items():
        for second_ok in (True, False):
            # every branch ends in a definition, so that no branch has a value (arms of a match
            # statement with values of different types are refused by the checker; that is not a
            # signature matter and is kept out of this property)
            use2 = "def u2: Str := takes_str(loc)" if second_ok else "def u2: Int := takes_int(loc)"
            first = ["def loc: Int := 1"] + [l if not l.strip().startswith("takes_int") and "=> takes_int" not in l else l.replace("takes_int(loc + 1)", "def u0: Int := takes_int(loc + 1)").replace("takes_int(loc)", "def u0: Int := takes_int(loc)") for l in nest] + ["def u1: Int := takes_int(loc)"]
            second = ['def loc: Str := "s"', use2]
            tg = ["nest:" + nname, "second:" + ("ok" if second_ok else "wrong-type")]
            body = ["def sc := True", "def sn := 1", "if sc then"] + ctxgen.indent(first) + ["else"] + ctxgen.indent(second)
            add("siblings-if", sib_pre, body, second_ok, tg, len(body) - 1 if not second_ok else None)
            body = ["def sc := True", "def sn := 1", "match sn", "    1 =>"] + ctxgen.indent(first, 2) + ["    _ =>"] + ctxgen.indent(second, 2)
            add("siblings-match", sib_pre, body, second_ok, tg, len(body) - 1 if not second_ok else None)
            body = ["def sc := True", "def sn := 1", "sr(1) handle", "    e1: SE1 =>"] + ctxgen.indent(first, 2) + ["    e2: SE2 =>"] + ctxgen.indent(second, 2)
            add("siblings-handle", sib_pre, body, second_ok, tg, len(body) - 1 if not second_ok else None)
            # the handle binder itself is the same-named local of different type
            body = ["def sc := True", "def sn := 1", "sr(1) handle", "    err: SE1 =>"] + ctxgen.indent(nest and [l.replace("takes_int(loc + 1)", 'print("n")').replace("takes_int(loc)", 'print("m")') for l in nest] or ['print("a")'], 2) + \
                   ["        def k1: SE1 := err", "    err: SE2 =>", "        def k2: %s := err" % ("SE2" if second_ok else "SE1")]
            add("siblings-handle-binder", sib_pre, body, second_ok, tg, len(body) - 1 if not second_ok else None)
    # arities with defaults
    ar_pre = ["def pd(a: Int, b: Int := 2) -> Int => a + b", "class PA", "    def m(self, a: Int, b: Int := 2) -> Int => a + b", "class PK(def a: Int, def b: Int := 2)"]
    for n in range(0, 4):
        args = ", ".join(["1", "2", "3"][:n])
        ok = n in (1, 2)
        add("arity-call", ar_pre, ["def pr: Int := pd(%s)" % args], ok, ["arity:%d" % n], 0)
        add("arity-method", ar_pre, ["def pao := PA()", "def pr: Int := pao.m(%s)" % args], ok, ["arity:%d" % n], 1)
        add("arity-ctor", ar_pre, ["def pk := PK(%s)" % args], ok, ["arity:%d" % n], 0)
    return out


def cases(tier, seed):
    depth = 1 if tier == "quick" else 2
    yield from ctxgen.cases_for(payloads(tier), depth, "c05")
    if tier != "quick":
        # thorough: every depth-1 case also behind each independent, legal noise prefix (ctxgen.NOISE): the verdict must not change
        yield from ctxgen.cases_for(payloads(tier), 1, "c05", noise=tuple(ctxgen.NOISE), noise_only=True)
    # the scope machine: every statement sequence over {def, def fin, shadowing def, assign, typed uses, 7 block kinds} within a size bound
    yield from scopeseq.cases("C05", tier)


def evaluate(case, drv):
    res = evaluate_verdict(case, drv)
    res.pop("result", None)
    if case["id"].endswith("101"):
        res["sample"] = {"id": case["id"], "expect": case["expect"], "mamba": case["src"]}
    return res
