"""C19 - diagnostics are well-formed and point into the offending file and line.

Rejected inputs: the C03 spaces (strings, token sequences, parent graphs,
grammar slots), the negative halves of C05-C09 (fault line known by
construction), single faults injected at EVERY line of M0 pool programs
(lexical: ' !' appended, TAB prepended; syntactic: ' )' appended, ' := 1 := 2'
appended) and multi-file projects with one faulty file.  Every rendered
diagnostic is parsed: >= 1 per rejection, header names the relative path given
for the source, position inside the file, every quoted 'N | text' line equals
line N of the source; for single faults some reported position is on line L.
"""
import re
import zlib

from .. import gen_prog, mutate
from . import c03, c05, c06, c07, c08, c09, c13

ID = "C19"
LEVEL = "exploration"
CHUNK = 4
RULE = ("every rejected input of the listed spaces; non-trivial = a rejection whose diagnostics were parsed and checked; the single-fault clause is "
        "judged only where the fault line is unambiguous by construction; distinct by input text")
ASSUMPTIONS = ["the position of an end-of-input diagnostic may be one or two columns past the last character of the last line",
               "token deletions (whose effect legitimately surfaces later) are only checked for well-formedness",
               "quoted lines are compared after stripping a trailing carriage return (the renderer uses str::lines)"]

HEADER = re.compile(r"^ ──→ (.+?)(?::(\d+):(\d+))?$", re.M)
QUOTED = re.compile(r"^ *(\d+) \| (.*)$", re.M)


def check_diagnostics(errs, files, fault=None):
    """files: {relative path as given (e.g. src/f.mamba): source}; fault: (path, line) or None.  Returns list of (kind, detail)."""
    out = []
    if not errs:
        return [("no-diagnostic", "rejection without any diagnostic")]
    lines_on = set()
    for e in errs:
        if not e.strip():
            out.append(("empty-diagnostic", "an empty diagnostic string"))
            continue
        heads = HEADER.findall(e)
        if not heads:
            out.append(("no-location-header", e[:120]))
            continue
        path, line, col = heads[0]
        if path not in files:
            out.append(("unknown-file", "header names %r, sources are %s" % (path, sorted(files))))
            continue
        parts = files[path].split("\n")
        # str::lines(): a line ends at LF (an immediately preceding CR belongs to the line break); a final CR without LF stays
        src_lines = [l[:-1] if (l.endswith("\r") and i < len(parts) - 1) else l for i, l in enumerate(parts)]
        if files[path].endswith("\n"):
            src_lines = src_lines[:-1] or [""]
        n = len(src_lines)
        if line:
            ln, cn = int(line), int(col)
            if not (1 <= ln <= max(n, 1)):
                out.append(("line-outside-file", "line %d of a %d-line file" % (ln, n)))
            else:
                width = len(src_lines[ln - 1]) if ln <= n else 0
                if not (1 <= cn <= width + 2):
                    out.append(("column-outside-line", "column %d, line %d has %d characters" % (cn, ln, width)))
            lines_on.add((path, ln))
        for num, text in QUOTED.findall(e):
            k = int(num)
            if not (1 <= k <= n):
                out.append(("quoted-line-number-outside-file", "quotes line %d of a %d-line file" % (k, n)))
            elif src_lines[k - 1] != text:
                out.append(("quoted-line-not-verbatim", "line %d is %r, quoted as %r" % (k, src_lines[k - 1][:60], text[:60])))
        # a caret must stand under a quoted source line: a position rendered as a bare '<unknown>' line (a cause whose source text
        # was not available to the renderer) is a position without the line it belongs to
        for m in re.finditer(r"^[ \t]*<unknown>[ \t]*\n[ \t]*\^", e, re.M):
            in_cause = "\u2514\u2500\u2192" in e[:m.start()]
            if not in_cause and line and int(line) > n:
                continue   # the diagnostic's own position is the end of the input after the final line break: there is no line to quote
            out.append(("position-without-source-line", "a caret under '<unknown>' instead of a quoted source line"))
            break
        for m in re.finditer(r"^ *(\d+) \| .*\n +\^", e, re.M):
            lines_on.add((path, int(m.group(1))))
    if fault is not None and not any(k.startswith(("unknown-file", "no-location")) for k, _ in out):
        if fault not in lines_on:
            out.append(("fault-line-not-reported", "fault on %s line %d, diagnostics point at %s" % (fault[0], fault[1], sorted(lines_on))))
    return out


def injected(tier):
    quick = tier == "quick"
    n = 0
    progs = []
    for fam in "FAOHKTRE":
        fc = list(gen_prog.FAMILIES[fam]("quick"))
        step = {"E": 70, "R": 60, "K": 10, "F": 8, "A": 16, "H": 8, "O": 1, "T": 2}[fam] if quick else {"E": 14, "R": 12, "K": 3, "F": 2, "A": 4, "H": 2, "O": 1, "T": 1}[fam]
        progs += fc[::step]
    for case in progs:
        case = gen_prog.materialise(dict(case))
        src = case["src"]
        lines = src.split("\n")[:-1]
        if len(lines) > 14:
            continue
        for i, l in enumerate(lines):
            if not l.strip():
                continue
            for kind, new in (("lexical-bang", l + " !"), ("lexical-tab", "\t" + l), ("syntax-paren", l + " )"), ("syntax-assign", l + " := 1 := 2")):
                n += 1
                v = "\n".join(lines[:i] + [new] + lines[i + 1:]) + "\n"
                yield {"id": "c19-i%d" % n, "family": "c19.injected." + kind, "mode": "single", "src": v, "fault_line": i + 1, "tags": ["fault:" + kind, "base:" + case["family"]]}
        # the LAST line cut after every token prefix, with every ending: the parser runs into the end of the input,
        # and the end of the input is on the last line
        i = max(k for k, l in enumerate(lines) if l.strip())
        toks = [t for _, t in mutate.tokenize(lines[i])]
        ind = lines[i][:len(lines[i]) - len(lines[i].lstrip(" "))]
        for cut in range(1, len(toks)):
            if not toks[cut - 1].strip():
                continue
            head = ind + "".join(toks[:cut]).strip()
            for ename, tail in (("nl", "\n"), ("none", ""), ("space-nl", " \n"), ("nl-nl", "\n\n"), ("crlf", "\r\n")):
                n += 1
                v = "\n".join(lines[:i] + [head]) + tail
                yield {"id": "c19-i%d" % n, "family": "c19.injected.truncated-last-line", "mode": "single", "src": v, "fault_line": i + 1, "tags": ["fault:truncated-last-line", "ending:" + ename, "base:" + case["family"]]}


def cases(tier, seed):
    quick = tier == "quick"
    n = 0

    def batch(family, items, size):
        nonlocal n
        buf = []
        for it in items:
            buf.append(it)
            if len(buf) >= size:
                n += 1
                yield {"id": "c19-b%d" % n, "family": family, "mode": "batch", "inputs": buf, "tags": []}
                buf = []
        if buf:
            n += 1
            yield {"id": "c19-b%d" % n, "family": family, "mode": "batch", "inputs": buf, "tags": []}

    yield from batch("c19.S1.strings", c03.s1(3 if quick else 4), 300)
    yield from batch("c19.S2.tokens", c03.s2(2), 300)
    yield from batch("c19.S5.graphs", (s for _, s in c03.s5()), 100)
    yield from batch("c19.S6.slots", (s for _, s in c03.s6()), 150)
    # negative halves of C05-C09 with the fault line known by construction
    for mod, name in ((c05, "c05"), (c06, "c06"), (c07, "c07"), (c09, "c09")):
        for c in mod.cases(tier, seed):
            if c["expect"] == "err" and c.get("fault_line"):
                if any(t.startswith("faults:") and t != "faults:1" for t in c["tags"]):
                    continue   # the single-fault space: sequences of the scope / constructor machines with more than one fault are not in it
                if quick and (zlib.crc32(c["id"].encode()) % 3):
                    continue
                if not quick and (zlib.crc32(c["id"].encode()) % 4):
                    continue   # thorough: a quarter of the (much larger) thorough spaces of C05-C09 - the rendering does not depend on the context depth
                yield {"id": "c19-" + c["id"], "family": "c19.typefault." + name, "mode": "single", "src": c["src"], "fault_line": c["fault_line"], "tags": c["tags"][:4] + ["from:" + c["family"]]}
    for c in c08.cases(tier, seed):
        if c["expect"] == "err" and (not quick or zlib.crc32(c["id"].encode()) % 4 == 0):
            yield {"id": "c19-" + c["id"], "family": "c19.typefault.c08", "mode": "single", "src": c["src"], "fault_line": None, "tags": c["tags"][:3]}
    yield from injected(tier)
    # multi-file projects with exactly one faulty file: the right FILE
    for name, files, ok, faulty in c13.projects("quick"):
        if not ok and faulty and "!" in name:
            n += 1
            yield {"id": "c19-p%d" % n, "family": "c19.project", "mode": "project", "files": files, "faulty": faulty, "tags": ["project:" + name]}


    # ... and with a fault that surfaces while the shared context is built (before any file is checked on its own)
    ctx_faults = {"argument-without-type": "class CtxBad(a)\n", "duplicate-parent": "class CtxP\nclass CtxDup: CtxP, CtxP\n", "import-alias-mismatch": "import os as o1, o2\n"}
    for name, files, ok, faulty in c13.projects("quick"):
        if ok and len(files) >= 2 and "clash" not in name and ":long" not in name and ":d2" not in name:
            for fp in sorted(files):
                for cname, text in ctx_faults.items():
                    n += 1
                    f2 = dict(files)
                    f2[fp] = files[fp] + text
                    yield {"id": "c19-p%d" % n, "family": "c19.project-context-fault", "mode": "project", "files": f2, "faulty": [fp], "tags": ["project:" + name, "ctx-fault:" + cname]}


def evaluate(case, drv):
    res = {"fail": [], "nontrivial": False, "stats": {}, "key": case["id"], "evals": 0}
    fam = case["family"]

    def judge(r, files, fault, inp_case, extra_tags):
        res["evals"] += 1
        if r["v"] in ("panic", "abort"):
            # "rendering it never fails": a crash while (or instead of) reporting
            res["fail"].append({"family": fam, "kind": "crash-instead-of-diagnostic", "detail": "%s %s: %s" % (r["v"], r.get("loc", r.get("signal")), r.get("msg", "")),
                                "tags": extra_tags + ["at:" + str(r.get("loc", "")).replace("/repo/", "").split(":")[0]], "case": inp_case})
            return
        if r["v"] != "err":
            res["stats"][fam + "." + r["v"]] = res["stats"].get(fam + "." + r["v"], 0) + 1
            return
        res["stats"][fam + ".rejected"] = res["stats"].get(fam + ".rejected", 0) + 1
        res["nontrivial"] = True
        res["nontrivial_n"] = res.get("nontrivial_n", 0) + 1
        probs = check_diagnostics(r["errs"], files, fault)
        seen = set()
        for kind, detail in probs:
            if kind in seen:
                continue
            seen.add(kind)
            first = r["errs"][0].split("\n")[0][:80]
            res["fail"].append({"family": fam, "kind": kind, "detail": "%s  [%s]" % (detail, first), "tags": extra_tags + ["msg:" + re.sub(r"[^A-Za-z ]", "", first)[:32].strip()],
                                "observed": "\n".join(r["errs"])[:800], "case": inp_case})

    if case["mode"] == "batch":
        for inp in case["inputs"]:
            r = drv.transpile1(inp)
            judge(r, {"src/f.mamba": inp}, None, {"id": case["id"], "family": fam, "mode": "batch", "inputs": [inp], "tags": []}, [])
    elif case["mode"] == "single":
        r = drv.transpile1(case["src"])
        fault = ("src/f.mamba", case["fault_line"]) if case.get("fault_line") else None
        judge(r, {"src/f.mamba": case["src"]}, fault, None, case["tags"])
        if r["v"] == "ok" and fam.startswith("c19.injected"):
            res["stats"][fam + ".fault-accepted"] = 1
    else:
        files = case["files"]
        r = drv.transpile([("/proj/src/" + p, s) for p, s in sorted(files.items())])
        fp = case["faulty"][0]
        nl = files[fp].count("\n")
        judge(r, {"src/" + p: s for p, s in files.items()}, ("src/" + fp, nl), None, case["tags"])
        if r["v"] == "err":
            heads = {h[0] for e in r["errs"] for h in HEADER.findall(e)}
            if heads - {"src/" + f for f in case["faulty"]}:
                res["fail"].append({"family": fam, "kind": "names-healthy-file", "detail": "diagnostics name %s, the faulty file is %s" % (sorted(heads), case["faulty"]), "tags": case["tags"]})
    res["stats"][fam + ".checked"] = res.get("nontrivial_n", 0)
    if case["id"].endswith("9") and case["mode"] == "single":
        res["sample"] = {"id": case["id"], "fault_line": case.get("fault_line"), "mamba": case["src"][-300:]}
    return res


def coverage(tier, agg):
    return {"distinct_nontrivial": int(sum(v for k, v in agg["stats"].items() if k.endswith(".checked")))}
