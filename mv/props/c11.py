"""C11 - the annotate option is semantically inert.

Every input of the metamorphic pool (M0 program pool, C02 families, repository
samples and all their single-token mutants) is transpiled with annotate off and
on: the verdicts must agree, and on success the two outputs must be the same
Python program once annotations are erased (AnnAssign -> Assign, parameter and
return annotations dropped, typing imports that are then unused dropped).
"""
import ast

from . import c02
from ..pyside import erase_annotations, dump

ID = "C11"
LEVEL = "exploration"
CHUNK = 48
RULE = ("every input of the pool x both settings; non-trivial = accepted under at least one setting (the two outputs are "
        "compared after annotation erasure) ; distinct by source text")
ASSUMPTIONS = ["annotation erasure is defined on the Python AST: AnnAssign with value -> Assign, bare `x: T` -> dropped, arg/returns annotations dropped, `from typing import` names unused after erasure dropped",
               "outputs that CPython cannot parse are compared as text after a textual fallback is impossible: reported as unparsable (C02's business) and not judged here"]


def cases(tier, seed):
    for c in c02.cases(tier, seed):
        c["family"] = c["family"].replace("c02.", "c11.", 1)
        yield c


class _DropBare(ast.NodeTransformer):
    def visit_Pass(self, node):
        return node


def canon(src):
    tree = ast.parse(src)
    tree = erase_annotations(tree)
    return dump(tree)


def evaluate(case, drv):
    res = {"fail": [], "nontrivial": False, "stats": {}, "key": case["src"], "evals": 2}
    fam = ".".join(case["family"].split(".")[:3])
    r0 = drv.transpile1(case["src"], annotate=False)
    r1 = drv.transpile1(case["src"], annotate=True)
    v0, v1 = r0["v"], r1["v"]
    if v0 != v1:
        res["fail"].append({"family": case["family"], "kind": "verdict-differs", "detail": "annotate off: %s, on: %s; %s" % (v0, v1, str((r0 if v0 != "ok" else r1).get("errs", r0))[:300]),
                            "tags": case.get("tags", [])})
        return res
    if v0 != "ok":
        res["stats"][fam + ".rejected"] = 1
        res["outcome"] = "rejected"
        return res
    res["nontrivial"] = True
    res["stats"][fam + ".accepted"] = 1
    res["outcome"] = "accepted"
    for o0, o1 in zip(r0["out"], r1["out"]):
        try:
            c0 = canon(o0)
        except SyntaxError:
            c0 = None
        try:
            c1 = canon(o1)
        except SyntaxError:
            c1 = None
        if c0 is None or c1 is None:
            if (c0 is None) != (c1 is None):
                res["fail"].append({"family": case["family"], "kind": "parsability-differs", "detail": "annotate off parses: %s, on parses: %s" % (c0 is not None, c1 is not None),
                                    "tags": case.get("tags", []) + c02.input_tags(case["src"]), "observed": (o0 if c0 is None else o1)[:800]})
            else:
                res["stats"][fam + ".unparsable-both"] = 1
            continue
        if c0 != c1:
            # locate first differing top-level statement for the report
            t0, t1 = erase_annotations(ast.parse(o0)), erase_annotations(ast.parse(o1))
            where = ""
            for a, b in zip(t0.body, t1.body):
                if dump(a) != dump(b):
                    where = "off: %s | on: %s" % (ast.unparse(a)[:200], ast.unparse(b)[:200])
                    break
            else:
                where = "different number of statements: %d vs %d" % (len(t0.body), len(t1.body))
            res["fail"].append({"family": case["family"], "kind": "program-differs-modulo-annotations", "detail": where, "tags": case.get("tags", []),
                                "observed": o1[:800]})
    if case["id"].endswith("33"):
        res["sample"] = {"id": case["id"], "mamba": case["src"][:300]}
    return res
