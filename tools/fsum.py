#!/usr/bin/env python3
"""fsum.py <Cxx> [n]: group the debug failure dump (.work/<Cxx>.failures.jsonl) by family/kind/normalised detail."""
import json, sys, collections, re
prop = sys.argv[1]
n = int(sys.argv[2]) if len(sys.argv) > 2 else 1
g = collections.OrderedDict()
for l in open('/verif/.work/%s.failures.jsonl' % prop):
    d = json.loads(l)
    f = d['failure']
    k = ('.'.join(f['family'].split('.')[:3]), f['kind'], re.sub(r'\d+', 'N', str(f['detail']))[:80])
    g.setdefault(k, []).append(d)
for k, v in sorted(g.items(), key=lambda kv: -len(kv[1])):
    print('=====', len(v), k)
    for d in v[:n]:
        c = d['case'] or {}
        src = c.get('src') or c.get('input') or json.dumps(c)[:300]
        print('   tags:', d['failure'].get('tags'))
        print('   src :', repr(src[-(int(sys.argv[3]) if len(sys.argv) > 3 else 160):]))
        print('   out :', repr(str(d['failure'].get('observed', ''))[-(int(sys.argv[4]) if len(sys.argv) > 4 else 160):]))
