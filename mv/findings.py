"""Known-findings file: committed, read-only at run time.

An entry explains a failing case only if the property, the family (prefix), the
discrepancy kind and all predicate parts agree; anything else stays a
violation.  `fixed` entries suppress nothing.
"""
import json
import os
import re

from .pool import VERIF

PATH = os.path.join(VERIF, "known_findings.json")


def load():
    if not os.path.exists(PATH):
        return []
    data = json.load(open(PATH))
    return data.get("findings", [])


def _case_text(case):
    if case is None:
        return ""
    if "input" in case:
        return case["input"]
    if "progs" in case:
        return "\n".join(s for _, s in case["progs"])
    files = case.get("files")
    if isinstance(files, dict):
        return "\n".join(files.values())
    if isinstance(files, list):
        return "\n".join(s for _, s in files)
    return case.get("src", "") or ""


def explains(entry, prop, failure, case):
    if entry.get("status") != "open":
        return False
    if entry.get("property") != prop:
        return False
    m = entry.get("match", {})
    fam = m.get("family")
    if fam is not None:
        fams = fam if isinstance(fam, list) else [fam]
        if not any(str(failure.get("family", "")).startswith(x) for x in fams):
            return False
    kind = m.get("kind")
    if kind is not None:
        kinds = kind if isinstance(kind, list) else [kind]
        if failure.get("kind") not in kinds:
            return False
    tags = set(failure.get("tags", [])) | set((case or {}).get("tags", []))
    for t in m.get("tags_all", []):
        if t not in tags:
            return False
    anyt = m.get("tags_any")
    if anyt and not any(t in tags for t in anyt) and m.get("detail_re_any") is None:
        return False
    anyt2 = m.get("tags_any2")
    if anyt2 and not any(t in tags for t in anyt2):
        return False
    for t in m.get("tags_none", []):
        if t in tags:
            return False
    # tags_any / detail_re_any together: ONE of the two alternatives has to hold (tags_any alone is handled above)
    drea = m.get("detail_re_any")
    if drea is not None:
        if not (re.search(drea, str(failure.get("detail", "")), re.S) or (anyt and any(t in tags for t in anyt))):
            return False
    dre = m.get("detail_re")
    if dre is not None and not re.search(dre, str(failure.get("detail", "")), re.S):
        return False
    ire = m.get("input_re")
    if ire is not None and not re.search(ire, _case_text(case), re.S):
        return False
    return True


def match(entries, prop, failure, case):
    for e in entries:
        if explains(e, prop, failure, case):
            return e
    return None
