//! C18 oracle (token spans / indentation balance) on the real lexer, the
//! exhaustive lexer sweeps, and the explicit-state search of the indentation
//! automaton.
use std::collections::{HashMap, VecDeque};

use mamba::parse::verif_hooks::{lex, LexMachine, Tok};

use crate::json::{arr, esc};

#[derive(Clone, Debug)]
pub struct Viol {
    pub kind: &'static str,
    pub detail: String,
}

fn synthetic(kind: &str) -> bool {
    matches!(kind, "NL" | "Indent" | "Dedent" | "Eof")
}

/// The exact source spelling a token stands for.
fn spelling(t: &Tok) -> String {
    if t.kind == "DocStr" {
        // Display gives `##<doc>`; the source form is `"""<doc>"""`.
        match t.lexeme.strip_prefix("##") {
            Some(doc) => format!("\"\"\"{doc}\"\"\""),
            None => t.lexeme.clone(),
        }
    } else {
        t.lexeme.clone()
    }
}

pub struct Src {
    chars: Vec<char>,
    line_start: Vec<usize>, // char offset of each line (0-based line index)
    line_len: Vec<usize>,   // in chars, excluding the '\n'
}

impl Src {
    pub fn new(s: &str) -> Src {
        let chars: Vec<char> = s.chars().collect();
        let mut line_start = vec![0];
        let mut line_len = vec![];
        let mut cur = 0;
        for (i, c) in chars.iter().enumerate() {
            if *c == '\n' {
                line_len.push(i - cur);
                cur = i + 1;
                line_start.push(cur);
            }
        }
        line_len.push(chars.len() - cur);
        Src { chars, line_start, line_len }
    }

    /// char offset of 1-indexed (line, col); col may be one past the end of the line.
    pub fn offset(&self, p: (usize, usize)) -> Option<usize> {
        let (line, col) = p;
        if line == 0 || col == 0 || line > self.line_start.len() {
            return None;
        }
        let len = self.line_len[line - 1];
        if col > len + 1 {
            return None;
        }
        Some(self.line_start[line - 1] + col - 1)
    }
}

fn blank(cs: &[char]) -> bool {
    cs.iter().all(|c| *c == ' ' || *c == '\n' || *c == '\r')
}

fn check_stream(src: &Src, toks: &[Tok], lo: usize, hi: usize, nested: bool, out: &mut Vec<Viol>) {
    // lo..hi: char range the real tokens must tile (modulo blanks)
    let mut cursor = lo;
    let mut prev_kind = String::from("^");
    for (i, t) in toks.iter().enumerate() {
        if synthetic(&t.kind) {
            continue;
        }
        let so = src.offset(t.start);
        let eo = src.offset(t.end);
        let ctx = format!("token#{i} {} {:?} span {:?}-{:?} after {}", t.kind, t.lexeme, t.start, t.end, prev_kind);
        let (so, eo) = match (so, eo) {
            (Some(s), Some(e)) => (s, e),
            _ => {
                out.push(Viol { kind: "span-outside-source", detail: ctx });
                return;
            }
        };
        if so > eo {
            out.push(Viol { kind: "span-inverted", detail: ctx });
            return;
        }
        if so < cursor {
            out.push(Viol { kind: if nested { "nested-span-overlap" } else { "span-overlap" }, detail: ctx });
            return;
        }
        if eo > hi {
            out.push(Viol { kind: if nested { "nested-span-outside-braces" } else { "span-outside-source" }, detail: ctx });
            return;
        }
        let want: Vec<char> = spelling(t).chars().collect();
        if src.chars[so..eo] != want[..] {
            let got: String = src.chars[so..eo].iter().collect();
            out.push(Viol {
                kind: if nested { "nested-span-text-mismatch" } else { "span-text-mismatch" },
                detail: format!("{ctx}: span covers {got:?}"),
            });
            return;
        }
        if !blank(&src.chars[cursor..so]) {
            let got: String = src.chars[cursor..so].iter().collect();
            out.push(Viol { kind: "gap-not-blank", detail: format!("{ctx}: skipped {got:?}") });
            return;
        }
        // interpolated expressions: nested streams lie inside the string, each inside braces
        if t.kind == "Str" && !t.nested.is_empty() {
            for stream in &t.nested {
                let mut sub = vec![];
                // must lie strictly inside the quotes
                check_stream_nested(src, stream, so + 1, eo.saturating_sub(1), &mut sub);
                if let Some(v) = sub.into_iter().next() {
                    out.push(v);
                    return;
                }
            }
        }
        cursor = eo;
        prev_kind = if t.kind == "Str" {
            if t.lexeme == "\"\"" {
                String::from("Str-empty")
            } else if t.lexeme.contains('\n') {
                String::from("Str-multiline")
            } else {
                String::from("Str")
            }
        } else {
            t.kind.clone()
        };
    }
    if !nested && !blank(&src.chars[cursor..hi]) {
        let got: String = src.chars[cursor..hi].iter().collect();
        out.push(Viol { kind: "gap-not-blank", detail: format!("trailing text {got:?} not covered by any token") });
    }
}

fn check_stream_nested(src: &Src, toks: &[Tok], lo: usize, hi: usize, out: &mut Vec<Viol>) {
    // nested tokens: each must carry its own text; the stream must lie in lo..hi
    // and (the braces rule) the text between nested tokens of one stream is blank.
    let mut first = true;
    let mut cursor = lo;
    for (i, t) in toks.iter().enumerate() {
        if synthetic(&t.kind) {
            continue;
        }
        let ctx = format!("nested token#{i} {} {:?} span {:?}-{:?}", t.kind, t.lexeme, t.start, t.end);
        let (so, eo) = match (src.offset(t.start), src.offset(t.end)) {
            (Some(s), Some(e)) => (s, e),
            _ => {
                out.push(Viol { kind: "nested-span-outside-source", detail: ctx });
                return;
            }
        };
        if so > eo || so < cursor || eo > hi {
            out.push(Viol { kind: "nested-span-outside-braces", detail: ctx });
            return;
        }
        let want: Vec<char> = spelling(t).chars().collect();
        if src.chars[so..eo] != want[..] {
            let got: String = src.chars[so..eo].iter().collect();
            out.push(Viol { kind: "nested-span-text-mismatch", detail: format!("{ctx}: span covers {got:?}") });
            return;
        }
        if !first && !blank(&src.chars[cursor..so]) {
            out.push(Viol { kind: "nested-gap-not-blank", detail: ctx });
            return;
        }
        first = false;
        cursor = eo;
    }
}

/// All C18 invariants on one accepted token stream.
pub fn check_tokens(input: &str, toks: &[Tok]) -> Vec<Viol> {
    let mut out = vec![];
    // exactly one Eof, last
    let eofs = toks.iter().filter(|t| t.kind == "Eof").count();
    if eofs != 1 || toks.last().map_or(true, |t| t.kind != "Eof") {
        out.push(Viol { kind: "eof", detail: format!("{eofs} Eof tokens / last is {:?}", toks.last().map(|t| t.kind.clone())) });
    }
    // balance
    let mut level: i64 = 0;
    let mut neg = false;
    for t in toks {
        if t.kind == "Indent" {
            level += 1;
        } else if t.kind == "Dedent" {
            level -= 1;
            if level < 0 {
                neg = true;
            }
        }
    }
    if neg {
        out.push(Viol { kind: "dedent-below-zero", detail: format!("final level {level}") });
    } else if level != 0 {
        out.push(Viol { kind: "indent-unbalanced", detail: format!("final level {level}") });
    }
    let src = Src::new(input);
    check_stream(&src, toks, 0, src.chars.len(), false, &mut out);
    // synthetic tokens lie between their real neighbours
    if out.is_empty() {
        let mut prev_end = (1usize, 1usize);
        for (i, t) in toks.iter().enumerate() {
            if synthetic(&t.kind) {
                let next = toks[i..].iter().find(|t| !synthetic(&t.kind)).map(|t| t.start);
                let ok_lo = t.start >= prev_end;
                let ok_hi = next.map_or(true, |n| t.start <= n);
                if t.kind != "Eof" && (!ok_lo || !ok_hi) {
                    out.push(Viol {
                        kind: "synthetic-token-misplaced",
                        detail: format!("token#{i} {} at {:?}, previous real token ends {:?}, next starts {:?}", t.kind, t.start, prev_end, next),
                    });
                    break;
                }
            } else {
                prev_end = t.end;
            }
        }
    }
    out
}

pub fn kinds(toks: &[Tok]) -> Vec<String> {
    toks.iter().map(|t| t.kind.clone()).collect()
}

fn tok_json(t: &Tok) -> String {
    format!(
        "{{\"k\":{},\"x\":{},\"s\":[{},{}],\"e\":[{},{}],\"n\":{}}}",
        esc(&t.kind),
        esc(&t.lexeme),
        t.start.0,
        t.start.1,
        t.end.0,
        t.end.1,
        arr(t.nested.iter().map(|s| arr(s.iter().map(tok_json))))
    )
}

/// JSON body (without braces) with the token stream of `text`.
pub fn dump(text: &str) -> String {
    match lex(text) {
        Ok(toks) => format!("\"v\":\"ok\",\"toks\":{}", arr(toks.iter().map(tok_json))),
        Err((l, c, m)) => format!("\"v\":\"err\",\"line\":{l},\"col\":{c},\"msg\":{}", esc(&m)),
    }
}

fn viols_json(v: &[Viol]) -> String {
    arr(v.iter().map(|v| format!("{{\"kind\":{},\"detail\":{}}}", esc(v.kind), esc(&v.detail))))
}

pub fn check_json(text: &str) -> String {
    match lex(text) {
        Ok(toks) => {
            let v = check_tokens(text, &toks);
            format!("\"v\":\"ok\",\"ntok\":{},\"viol\":{}", toks.len(), viols_json(&v))
        }
        Err((l, c, m)) => format!("\"v\":\"err\",\"line\":{l},\"col\":{c},\"msg\":{}", esc(&m)),
    }
}

// ---------------------------------------------------------------------------
// sweeps

pub fn parse_alphabet(spec: &str) -> Vec<String> {
    // comma separated symbols; escapes: \n \r \s(space) \c(comma) \q(") \\ ; a symbol may be several chars
    spec.split(',')
        .map(|s| {
            let mut o = String::new();
            let mut it = s.chars();
            while let Some(c) = it.next() {
                if c == '\\' {
                    match it.next() {
                        Some('n') => o.push('\n'),
                        Some('r') => o.push('\r'),
                        Some('s') => o.push(' '),
                        Some('c') => o.push(','),
                        Some('q') => o.push('"'),
                        Some('t') => o.push('\t'),
                        Some('\\') => o.push('\\'),
                        Some(x) => o.push(x),
                        None => {}
                    }
                } else {
                    o.push(c);
                }
            }
            o
        })
        .collect()
}

struct SweepStats {
    total: u64,
    accepted: u64,
    rejected: u64,
    panics: u64,
    failing: u64,
    max_tokens: usize,
}

fn sweep_one(input: &str, st: &mut SweepStats, emit: &mut dyn FnMut(String)) {
    st.total += 1;
    let r = std::panic::catch_unwind(|| lex(input).map(|toks| (check_tokens(input, &toks), toks.len())));
    match r {
        Ok(Ok((v, n))) => {
            st.accepted += 1;
            if n > st.max_tokens {
                st.max_tokens = n;
            }
            if let Some(first) = v.first() {
                st.failing += 1;
                emit(format!(
                    "{{\"input\":{},\"kind\":{},\"detail\":{},\"all\":{}}}",
                    esc(input),
                    esc(first.kind),
                    esc(&first.detail),
                    arr(v.iter().map(|x| esc(x.kind)))
                ));
            }
        }
        Ok(Err(_)) => st.rejected += 1,
        Err(_) => {
            st.panics += 1;
            st.failing += 1;
            let (loc, msg) = crate::serve::take_panic();
            emit(format!("{{\"input\":{},\"kind\":\"lexer-panic\",\"detail\":{},\"all\":[\"lexer-panic\"]}}", esc(input), esc(&format!("{loc}: {msg}"))));
        }
    }
}

/// All strings over `alphabet` of length 0..=maxlen whose enumeration index is
/// congruent to `shard` modulo `of`.
pub fn sweep_strings(alphabet: &[String], maxlen: usize, shard: u64, of: u64, prefix: &str, suffix: &str) {
    let mut st = SweepStats { total: 0, accepted: 0, rejected: 0, panics: 0, failing: 0, max_tokens: 0 };
    let mut emit = |s: String| println!("F {s}");
    let k = alphabet.len();
    let mut index: u64 = 0;
    for len in 0..=maxlen {
        let mut digits = vec![0usize; len];
        loop {
            if index % of == shard {
                let mut s = String::from(prefix);
                for d in &digits {
                    s.push_str(&alphabet[*d]);
                }
                s.push_str(suffix);
                sweep_one(&s, &mut st, &mut emit);
            }
            index += 1;
            // increment
            let mut i = len;
            loop {
                if i == 0 {
                    break;
                }
                i -= 1;
                digits[i] += 1;
                if digits[i] < k {
                    break;
                }
                digits[i] = 0;
                if i == 0 {
                    i = usize::MAX;
                    break;
                }
            }
            if len == 0 || i == usize::MAX {
                break;
            }
        }
    }
    println!(
        "S {{\"total\":{},\"accepted\":{},\"rejected\":{},\"panics\":{},\"failing\":{},\"max_tokens\":{},\"space\":{}}}",
        st.total, st.accepted, st.rejected, st.panics, st.failing, st.max_tokens, index
    );
}

/// The token vocabulary for the pair sweep: spelling and the kinds it must lex to.
pub fn vocabulary() -> Vec<(String, Vec<&'static str>)> {
    let mut v: Vec<(String, Vec<&'static str>)> = vec![];
    let simple: &[(&str, &str)] = &[
        ("from", "From"), ("type", "Type"), ("class", "Class"), ("pure", "Pure"), ("isa", "IsA"),
        ("as", "As"), ("import", "Import"), ("forward", "Forward"), (".", "Point"), (",", "Comma"),
        (":", "DoublePoint"), ("vararg", "Vararg"), ("\\", "BSlash"), ("fin", "Fin"), (":=", "Assign"),
        ("+=", "AddAssign"), ("-=", "SubAssign"), ("*=", "MulAssign"), ("/=", "DivAssign"), ("^=", "PowAssign"),
        ("<<=", "BLShiftAssign"), (">>=", "BRShiftAssign"), ("def", "Def"), ("..", "Range"), ("..=", "RangeIncl"),
        ("::", "Slice"), ("::=", "SliceIncl"), ("+", "Add"), ("-", "Sub"), ("*", "Mul"), ("/", "Div"),
        ("//", "FDiv"), ("^", "Pow"), ("mod", "Mod"), ("sqrt", "Sqrt"), ("_and_", "BAnd"), ("_or_", "BOr"),
        ("_xor_", "BXOr"), ("_not_", "BOneCmpl"), ("<<", "BLShift"), (">>", "BRShift"), (">", "Ge"), (">=", "Geq"),
        ("<", "Le"), ("<=", "Leq"), ("=", "Eq"), ("is", "Is"), ("!=", "Neq"), ("and", "And"), ("or", "Or"),
        ("not", "Not"), ("(", "LRBrack"), (")", "RRBrack"), ("[", "LSBrack"), ("]", "RSBrack"), ("{", "LCBrack"),
        ("}", "RCBrack"), ("|", "Ver"), ("->", "To"), ("=>", "BTo"), ("_", "Underscore"), ("raise", "Raise"),
        ("when", "When"), ("while", "While"), ("for", "For"), ("in", "In"), ("if", "If"), ("then", "Then"),
        ("match", "Match"), ("else", "Else"), ("do", "Do"), ("continue", "Continue"), ("break", "Break"),
        ("return", "Ret"), ("with", "With"), ("?", "Question"), ("handle", "Handle"), ("pass", "Pass"),
        // identifiers
        ("a", "Id"), ("abc", "Id"), ("_x1", "Id"), ("Int", "Id"), ("self", "Id"), ("iff", "Id"), ("E", "Id"),
        // numbers
        ("0", "Int"), ("12", "Int"), ("007", "Int"), ("1.5", "Real"), ("0.0", "Real"), ("10.25", "Real"),
        ("1E2", "ENum"), ("12E10", "ENum"), ("1.5E3", "ENum"),
        // strings
        ("\"\"", "Str"), ("\"a\"", "Str"), ("\"a b\"", "Str"), ("\"a{b}c\"", "Str"), ("\"{a + 1}\"", "Str"),
        ("\"{a}{b}\"", "Str"), ("\"\\\"\"", "Str"), ("\"x\ny\"", "Str"), ("\"x\ny\nz\"", "Str"), ("\"x\n\"", "Str"),
        ("\"\n\"", "Str"), ("\"a\n{b}\"", "Str"), ("\"é\"", "Str"),
        ("\"\"\"doc\"\"\"", "DocStr"), ("\"\"\"d\ne\"\"\"", "DocStr"), ("\"\"\"\"\"\"", "DocStr"),
        // comments
        ("#", "Comment"), ("# c", "Comment"), ("#c \"q\" (", "Comment"),
    ];
    for (s, k) in simple {
        v.push((s.to_string(), vec![*k]));
    }
    v
}

fn is_comment(sp: &str) -> bool {
    sp.starts_with('#')
}

fn never_merges(sp: &str) -> bool {
    matches!(sp, "(" | ")" | "[" | "]" | "{" | "}" | "," | "|" | "\\" | "?")
}

/// L1: all ordered pairs of vocabulary tokens with every separator.
pub fn sweep_pairs(shard: u64, of: u64) {
    let vocab = vocabulary();
    let mut st = SweepStats { total: 0, accepted: 0, rejected: 0, panics: 0, failing: 0, max_tokens: 0 };
    let mut kinds_checked: u64 = 0;
    let seps: &[(&str, &[&str], &[&str])] = &[
        // separator, kinds between, kinds after
        ("", &[], &[]),
        (" ", &[], &[]),
        ("  ", &[], &[]),
        ("\n", &["NL"], &[]),
        ("\r\n", &["NL"], &[]),
        ("\n\n", &["NL", "NL"], &[]),
        ("\n    ", &["NL", "Indent"], &["Dedent"]),
        (" \n        ", &["NL", "Indent", "Indent"], &["Dedent", "Dedent"]),
    ];
    let mut index: u64 = 0;
    // singles first
    for (sp, ks) in &vocab {
        if index % of == shard {
            let mut emit = |s: String| println!("F {s}");
            sweep_one(sp, &mut st, &mut emit);
            match std::panic::catch_unwind(|| lex(sp)) {
                Ok(Ok(toks)) => {
                    let got = kinds(&toks);
                    let mut want: Vec<String> = ks.iter().map(|s| s.to_string()).collect();
                    want.push("Eof".into());
                    kinds_checked += 1;
                    if got != want {
                        st.failing += 1;
                        println!("F {{\"input\":{},\"kind\":\"pair-kinds\",\"detail\":{},\"all\":[\"pair-kinds\"],\"want\":{}}}", esc(sp), esc(&format!("got {got:?} want {want:?}")), crate::json::str_arr(&want));
                    }
                }
                Ok(Err(e)) => {
                    st.failing += 1;
                    println!("F {{\"input\":{},\"kind\":\"pair-rejected\",\"detail\":{},\"all\":[\"pair-rejected\"]}}", esc(sp), esc(&format!("{e:?}")));
                }
                Err(_) => {}
            }
        }
        index += 1;
    }
    for (s1, k1) in &vocab {
        for (s2, k2) in &vocab {
            for (sep, between, after) in seps {
                if index % of != shard {
                    index += 1;
                    continue;
                }
                index += 1;
                let input = format!("{s1}{sep}{s2}");
                let mut emit = |s: String| println!("F {s}");
                sweep_one(&input, &mut st, &mut emit);
                // kinds equality where the canonical spelling is unambiguous
                let sep_has_nl = sep.contains('\n');
                let judge_kinds = if is_comment(s1) {
                    sep_has_nl
                } else if sep.is_empty() {
                    never_merges(s1) || never_merges(s2)
                } else {
                    true
                };
                if judge_kinds {
                    if let Ok(Ok(toks)) = std::panic::catch_unwind(|| lex(&input)) {
                        let got = kinds(&toks);
                        let mut want: Vec<String> = vec![];
                        want.extend(k1.iter().map(|s| s.to_string()));
                        // a comment is trivia: it neither opens nor closes a block
                        let trivia2 = is_comment(s2);
                        want.extend(between.iter().filter(|k| !(trivia2 && **k == "Indent")).map(|s| s.to_string()));
                        want.extend(k2.iter().map(|s| s.to_string()));
                        want.extend(after.iter().filter(|k| !(trivia2 && **k == "Dedent")).map(|s| s.to_string()));
                        want.push("Eof".into());
                        kinds_checked += 1;
                        if got != want {
                            st.failing += 1;
                            println!(
                                "F {{\"input\":{},\"kind\":\"pair-kinds\",\"detail\":{},\"all\":[\"pair-kinds\"],\"want\":{}}}",
                                esc(&input),
                                esc(&format!("got {got:?} want {want:?}")),
                                crate::json::str_arr(&want)
                            );
                        }
                    } else {
                        st.failing += 1;
                        println!(
                            "F {{\"input\":{},\"kind\":\"pair-rejected\",\"detail\":\"canonical spelling of two tokens is refused\",\"all\":[\"pair-rejected\"]}}",
                            esc(&input)
                        );
                    }
                }
            }
        }
    }
    println!(
        "S {{\"total\":{},\"accepted\":{},\"rejected\":{},\"panics\":{},\"failing\":{},\"max_tokens\":{},\"space\":{},\"kinds_checked\":{},\"vocab\":{}}}",
        st.total, st.accepted, st.rejected, st.panics, st.failing, st.max_tokens, index, kinds_checked, vocab.len()
    );
}

/// L3: all layouts of up to `maxlines` lines.
pub fn sweep_layouts(maxlines: usize, shard: u64, of: u64) {
    let indents = ["", "    ", "        "];
    let contents = ["x", "#c", "", "  ", "\"\"", "x #c"];
    let endings = ["\n", "\r\n"];
    let mut lines: Vec<String> = vec![];
    for i in indents {
        for c in contents {
            for e in endings {
                lines.push(format!("{i}{c}{e}"));
            }
        }
    }
    // last line may also lack its ending
    let mut last: Vec<String> = lines.clone();
    for i in indents {
        for c in contents {
            last.push(format!("{i}{c}"));
        }
    }
    let mut st = SweepStats { total: 0, accepted: 0, rejected: 0, panics: 0, failing: 0, max_tokens: 0 };
    let mut emit = |s: String| println!("F {s}");
    let mut index: u64 = 0;
    for n in 1..=maxlines {
        let mut digits = vec![0usize; n];
        'outer: loop {
            if index % of == shard {
                let mut s = String::new();
                for (j, d) in digits.iter().enumerate() {
                    if j + 1 == n {
                        s.push_str(&last[*d]);
                    } else {
                        s.push_str(&lines[*d]);
                    }
                }
                sweep_one(&s, &mut st, &mut emit);
            }
            index += 1;
            let mut i = n;
            loop {
                if i == 0 {
                    break 'outer;
                }
                i -= 1;
                digits[i] += 1;
                let lim = if i + 1 == n { last.len() } else { lines.len() };
                if digits[i] < lim {
                    break;
                }
                digits[i] = 0;
            }
        }
    }
    println!(
        "S {{\"total\":{},\"accepted\":{},\"rejected\":{},\"panics\":{},\"failing\":{},\"max_tokens\":{},\"space\":{}}}",
        st.total, st.accepted, st.rejected, st.panics, st.failing, st.max_tokens, index
    );
}

// ---------------------------------------------------------------------------
// L5: explicit-state search of the indentation automaton on the real lexer state

type Key = (i32, i32, bool, usize);

fn abstract_key(m: &LexMachine) -> Key {
    let (c, l, t, n) = m.key();
    (c, l, t, n.min(2))
}

fn net_of(toks: &[Tok], start: i64) -> (i64, bool) {
    let mut level = start;
    let mut neg = false;
    for t in toks {
        if t.kind == "Indent" {
            level += 1;
        } else if t.kind == "Dedent" {
            level -= 1;
            if level < 0 {
                neg = true;
            }
        }
    }
    (level, neg)
}

pub fn automaton(max_line_indent: i32, conf_depth: usize) {
    let frags: Vec<&str> = vec!["(", " ", "\n", "\r\n", "#c\n", "\"\" ", "\"a\nb\" ", "\"\"\"d\"\"\" ", "x "];
    let mut seen: HashMap<Key, (i64, String)> = HashMap::new();
    let mut queue: VecDeque<(LexMachine, String)> = VecDeque::new();
    let m0 = LexMachine::new();
    seen.insert(abstract_key(&m0), (0, String::new()));
    queue.push_back((m0, String::new()));
    let (mut transitions, mut violations) = (0u64, 0u64);
    let mut off_grid_states = 0u64;
    while let Some((m, path)) = queue.pop_front() {
        let key = abstract_key(&m);
        let net = seen[&key].0;
        // end of input here: directly, and after a trailing comment without newline
        for tail in ["", "#c"] {
            let mut mm = m.clone();
            let mut toks = vec![];
            if !tail.is_empty() {
                match mm.feed(tail) {
                    Ok(t) => toks.extend(t),
                    Err(_) => continue,
                }
            }
            toks.extend(mm.flush());
            let (fin, neg) = net_of(&toks, net);
            if fin != 0 || neg {
                violations += 1;
                println!(
                    "F {{\"input\":{},\"kind\":\"automaton-unbalanced-at-eof\",\"detail\":{},\"all\":[\"automaton-unbalanced-at-eof\"]}}",
                    esc(&format!("{path}{tail}")),
                    esc(&format!("state {key:?}: net indents before end {net}, after flush {fin}"))
                );
            }
        }
        for f in &frags {
            if *f == " " && key.1 > max_line_indent {
                continue;
            }
            let mut mm = m.clone();
            let toks = match mm.feed(f) {
                Ok(t) => t,
                Err(_) => continue,
            };
            transitions += 1;
            let (nnet, neg) = net_of(&toks, net);
            let npath = format!("{path}{f}");
            if neg {
                violations += 1;
                println!(
                    "F {{\"input\":{},\"kind\":\"automaton-dedent-below-zero\",\"detail\":{},\"all\":[\"automaton-dedent-below-zero\"]}}",
                    esc(&npath),
                    esc(&format!("from state {key:?}"))
                );
                continue;
            }
            let nkey = abstract_key(&mm);
            match seen.get(&nkey) {
                Some((onet, opath)) => {
                    if *onet != nnet {
                        violations += 1;
                        println!(
                            "F {{\"input\":{},\"kind\":\"automaton-net-not-state-function\",\"detail\":{},\"all\":[\"automaton-net-not-state-function\"]}}",
                            esc(&npath),
                            esc(&format!("state {nkey:?} reached with net {nnet} here and net {onet} via {opath:?}: one of the two ends unbalanced"))
                        );
                    }
                }
                None => {
                    if (nkey.0 - 1) % 4 != 0 {
                        off_grid_states += 1;
                    }
                    seen.insert(nkey, (nnet, npath.clone()));
                    queue.push_back((mm, npath));
                }
            }
        }
    }
    // conformance: every path of fragments up to conf_depth, real tokenize() vs stepwise feed
    let mut conf = 0u64;
    let mut conf_fail = 0u64;
    let cfr: Vec<&str> = vec!["(", "    ", "  ", "\n", "\r\n", "#c\n", "\"a\nb\" "];
    let mut digits = vec![0usize; 0];
    for depth in 1..=conf_depth {
        digits.clear();
        digits.resize(depth, 0);
        'outer: loop {
            let mut text = String::new();
            let mut m = LexMachine::new();
            let mut stepped: Vec<String> = vec![];
            let mut ok = true;
            for d in &digits {
                text.push_str(cfr[*d]);
                match m.feed(cfr[*d]) {
                    Ok(t) => stepped.extend(t.iter().map(|t| format!("{}@{:?}", t.kind, t.start))),
                    Err(_) => {
                        ok = false;
                        break;
                    }
                }
            }
            if ok {
                stepped.extend(m.flush().iter().map(|t| format!("{}@{:?}", t.kind, t.start)));
                if let Ok(toks) = lex(&text) {
                    conf += 1;
                    let real: Vec<String> = toks.iter().filter(|t| t.kind != "Eof").map(|t| format!("{}@{:?}", t.kind, t.start)).collect();
                    if real != stepped {
                        conf_fail += 1;
                        println!(
                            "F {{\"input\":{},\"kind\":\"automaton-conformance\",\"detail\":{},\"all\":[\"automaton-conformance\"]}}",
                            esc(&text),
                            esc(&format!("tokenize gives {real:?}, stepping gives {stepped:?}"))
                        );
                    }
                }
            }
            let mut i = depth;
            loop {
                if i == 0 {
                    break 'outer;
                }
                i -= 1;
                digits[i] += 1;
                if digits[i] < cfr.len() {
                    break;
                }
                digits[i] = 0;
            }
        }
    }
    println!(
        "S {{\"states\":{},\"transitions\":{},\"violations\":{},\"off_grid_states\":{},\"conformance_paths\":{},\"conformance_failures\":{},\"max_line_indent\":{}}}",
        seen.len(), transitions, violations, off_grid_states, conf, conf_fail, max_line_indent
    );
}
