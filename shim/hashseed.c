/* LD_PRELOAD interposer for getrandom(2).
 *
 * Rust's std seeds every thread's `RandomState` (the SipHash keys of HashMap /
 * HashSet) with one getrandom() call per thread.  This shim makes those bytes a
 * pure function of a seed, so hash iteration order - the only nondeterminism in
 * the mamba pipeline - is owned by the checker:
 *   - verif_set_thread_seed(s): seed for the calling thread (used by mvdrv);
 *   - else env VERIF_HASH_SEED (used for the real `mamba` binary);
 *   - else 0.
 */
#define _GNU_SOURCE
#include <stdint.h>
#include <stdlib.h>
#include <string.h>
#include <sys/types.h>

static __thread int have_seed = 0;
static __thread uint64_t thread_seed = 0;

void verif_set_thread_seed(uint64_t s) {
    have_seed = 1;
    thread_seed = s;
}

int verif_shim_present(void) { return 1; }

static uint64_t splitmix64(uint64_t *x) {
    uint64_t z = (*x += 0x9E3779B97F4A7C15ULL);
    z = (z ^ (z >> 30)) * 0xBF58476D1CE4E5B9ULL;
    z = (z ^ (z >> 27)) * 0x94D049BB133111EBULL;
    return z ^ (z >> 31);
}

ssize_t getrandom(void *buf, size_t buflen, unsigned int flags) {
    (void)flags;
    uint64_t s;
    if (have_seed) {
        s = thread_seed;
    } else {
        const char *e = getenv("VERIF_HASH_SEED");
        s = e ? strtoull(e, NULL, 10) : 0;
    }
    uint64_t x = s * 0xD1342543DE82EF95ULL + 0x632BE59BD9B4E019ULL;
    unsigned char *p = (unsigned char *)buf;
    size_t i = 0;
    while (i < buflen) {
        uint64_t r = splitmix64(&x);
        size_t k = buflen - i < 8 ? buflen - i : 8;
        memcpy(p + i, &r, k);
        i += k;
    }
    return (ssize_t)buflen;
}
