"""C04 - accepted programs do not go wrong.

Base: the running programs of the M0 pool.  Mutants: every single-point
type-changing edit of their trees (each expression position replaced by a
canonical expression of every other type; an argument dropped / added at each
call; each use renamed to an undefined or differently typed name; each member
name changed; a name shadowed at the head of each nested block).  If the
pipeline accepts a mutant, its output is executed: the uncaught exception must
not be TypeError / AttributeError / NameError / UnboundLocalError.
"""
from .. import gen_c04
from ..pyside import run_python, went_wrong

ID = "C04"
LEVEL = "exploration"
CHUNK = 32
RULE = ("every single-point edit of every base program (bases: the M0 pool, thinned in the quick tier); non-trivial = accepted by the pipeline "
        "and executed; distinct by source text")
ASSUMPTIONS = ["CPython is the judge: the programs are closed, so one execution is the program's behaviour", "programs are checked with annotate off (the checker does not depend on it)"]


def cases(tier, seed):
    yield from gen_c04.cases(tier)


def evaluate(case, drv):
    res = {"fail": [], "nontrivial": False, "stats": {}, "key": case["src"], "evals": 1}
    r = drv.transpile1(case["src"])
    fam = ".".join(case["family"].split(".")[:2])
    if r["v"] == "err":
        res["stats"][fam + ".rejected"] = 1
        res["outcome"] = "rejected"
        return res
    if r["v"] != "ok":
        res["stats"][fam + ".crash"] = 1
        res["outcome"] = "crash"
        return res
    x = run_python(r["out"][0])
    res["evals"] = 2
    res["nontrivial"] = True
    res["stats"][fam + ".accepted"] = 1
    if x["compile_error"]:
        res["outcome"] = "accepted-uncompilable"
        res["stats"][fam + ".uncompilable"] = 1
        return res
    w = went_wrong(x)
    res["outcome"] = "accepted-" + (w or "fine")
    if w:
        import re
        msg = re.sub(r"'[^']*'", "'_'", x["exc_msg"])[:80]
        res["fail"].append({"family": case["family"], "kind": "went-wrong-" + w, "detail": "%s: %s  [%s]" % (w, x["exc_msg"][:150], case["desc"]),
                            "tags": case["tags"] + ["exc:" + w, "msg:" + msg], "observed": r["out"][0][-600:]})
    if case["id"].endswith("777"):
        res["sample"] = {"id": case["id"], "edit": case["desc"], "mamba": case["src"][-400:]}
    return res
