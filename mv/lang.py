"""M0 - the executable core language used by the generators.

A program is a list of statements (nested tuples).  Two independent renderers:
  * to_mamba(prog)  - Mamba source text (every nested operand parenthesised, so
                      that the meaning of the source is beyond dispute);
  * to_ref(prog)    - the *reference* Python rendering (explicit returns,
                      explicit constructors, every operand parenthesised) whose
                      execution under CPython defines the expected behaviour.
Mamba's documented operator semantics are Python's, so CPython is the reference
evaluator for leaves and operators; the structure (implicit return, ranges,
handle, class arguments, ...) is spelled out explicitly by to_ref.
"""

# ---------------------------------------------------------------- expressions
# ('lit', mamba_text, py_text)        ('var', name)
# ('bin', op, l, r)   op in BINOPS     ('un', op, e)  op in '-', '+', 'not'
# ('call', fname, [args])              ('mcall', obj, name, [args])
# ('field', obj, name)                 ('new', cls, [args])
# ('list', [e]) ('set', [e]) ('tuple', [e])   ('index', e, i)
# ('ifx', c, a, b)                     ('sqrt', e)
# ('fstr', [str | expr])               ('in', a, b)  ('is', a, b) ('isnt', a, b)
# ('isa', e, cls) ('isna', e, cls)     ('qd', e, d)   e ? d
# ('none',)                            ('paren', e)   redundant parentheses
# ('raw', mamba_text, py_text)         escape hatch
# ('range', a, b, incl, step|None)

BINOPS = {
    '+': '+', '-': '-', '*': '*', '/': '/', '//': '//', 'mod': '%', '^': '**',
    '<': '<', '<=': '<=', '>': '>', '>=': '>=', '=': '==', '!=': '!=',
    'and': 'and', 'or': 'or',
    '_and_': '&', '_or_': '|', '_xor_': '^', '<<': '<<', '>>': '>>',
}

ATOMS = ('lit', 'var', 'call', 'mcall', 'field', 'new', 'list', 'set', 'tuple', 'index', 'sqrt', 'fstr', 'none', 'paren', 'raw')


def lit_int(n):
    return ('lit', str(n), str(n))


def lit_float(s):
    return ('lit', s, s)


def lit_str(s):
    return ('lit', '"%s"' % s, '"%s"' % s)


def lit_bool(b):
    return ('lit', 'True' if b else 'False', 'True' if b else 'False')


def var(n):
    return ('var', n)


def is_atom(e):
    return e[0] in ATOMS or (e[0] == 'lit')


def m_expr(e, top=True):
    """Mamba text of an expression; nested non-atomic operands are parenthesised."""
    k = e[0]

    def sub(x):
        s = m_expr(x, False)
        return s if is_atom(x) else '(' + s + ')'

    if k == 'lit':
        return e[1]
    if k == 'raw':
        return e[1]
    if k == 'var':
        return e[1]
    if k == 'none':
        return 'None'
    if k == 'paren':
        return '(' + m_expr(e[1], True) + ')'
    if k == 'bin':
        return '%s %s %s' % (sub(e[2]), e[1], sub(e[3]))
    if k == 'un':
        return ('not ' if e[1] == 'not' else e[1]) + sub(e[2])
    if k == 'call':
        return '%s(%s)' % (e[1], ', '.join(m_expr(a) for a in e[2]))
    if k == 'mcall':
        return '%s.%s(%s)' % (sub(e[1]), e[2], ', '.join(m_expr(a) for a in e[3]))
    if k == 'field':
        return '%s.%s' % (sub(e[1]), e[2])
    if k == 'new':
        return '%s(%s)' % (e[1], ', '.join(m_expr(a) for a in e[2]))
    if k == 'list':
        return '[' + ', '.join(m_expr(a) for a in e[1]) + ']'
    if k == 'set':
        return '{' + ', '.join(m_expr(a) for a in e[1]) + '}'
    if k == 'tuple':
        return '(' + ', '.join(m_expr(a) for a in e[1]) + ')'
    if k == 'index':
        return '%s[%s]' % (sub(e[1]), m_expr(e[2]))
    if k == 'ifx':
        return 'if %s then %s else %s' % (sub(e[1]), sub(e[2]), sub(e[3]))
    if k == 'sqrt':
        return 'sqrt %s' % sub(e[1])
    if k == 'fstr':
        return '"' + ''.join(p if isinstance(p, str) else '{' + m_expr(p) + '}' for p in e[1]) + '"'
    if k == 'in':
        return '%s in %s' % (sub(e[1]), sub(e[2]))
    if k == 'is':
        return '%s is %s' % (sub(e[1]), sub(e[2]))
    if k == 'isnt':
        return '%s isnt %s' % (sub(e[1]), sub(e[2]))
    if k == 'isa':
        return '%s isa %s' % (sub(e[1]), e[2])
    if k == 'isna':
        return '%s isna %s' % (sub(e[1]), e[2])
    if k == 'qd':
        return '%s ? %s' % (sub(e[1]), sub(e[2]))
    if k == 'range':
        s = '%s %s %s' % (sub(e[1]), '..=' if e[3] else '..', sub(e[2]))
        if e[4] is not None:
            s += ' .. ' + sub(e[4])
        return s
    raise ValueError('m_expr: ' + repr(e))


def r_expr(e):
    """Reference Python text; every compound operand parenthesised."""
    k = e[0]

    def sub(x):
        s = r_expr(x)
        return s if is_atom(x) else '(' + s + ')'

    if k == 'lit':
        return e[2]
    if k == 'raw':
        return e[2]
    if k == 'var':
        return e[1]
    if k == 'none':
        return 'None'
    if k == 'paren':
        return '(' + r_expr(e[1]) + ')'
    if k == 'bin':
        return '%s %s %s' % (sub(e[2]), BINOPS[e[1]], sub(e[3]))
    if k == 'un':
        return ('not ' if e[1] == 'not' else e[1]) + sub(e[2])
    if k == 'call':
        return '%s(%s)' % (e[1], ', '.join(r_expr(a) for a in e[2]))
    if k == 'mcall':
        return '%s.%s(%s)' % (sub(e[1]), e[2], ', '.join(r_expr(a) for a in e[3]))
    if k == 'field':
        return '%s.%s' % (sub(e[1]), e[2])
    if k == 'new':
        return '%s(%s)' % (e[1], ', '.join(r_expr(a) for a in e[2]))
    if k == 'list':
        return '[' + ', '.join(r_expr(a) for a in e[1]) + ']'
    if k == 'set':
        return '{' + ', '.join(r_expr(a) for a in e[1]) + '}' if e[1] else 'set()'
    if k == 'tuple':
        return '(' + ', '.join(r_expr(a) for a in e[1]) + (',)' if len(e[1]) == 1 else ')')
    if k == 'index':
        return '%s[%s]' % (sub(e[1]), r_expr(e[2]))
    if k == 'ifx':
        return '(%s) if (%s) else (%s)' % (r_expr(e[2]), r_expr(e[1]), r_expr(e[3]))
    if k == 'sqrt':
        return '__import__("math").sqrt(%s)' % r_expr(e[1])
    if k == 'fstr':
        return 'f"' + ''.join(p if isinstance(p, str) else '{' + r_expr(p) + '}' for p in e[1]) + '"'
    if k == 'in':
        return '%s in %s' % (sub(e[1]), sub(e[2]))
    if k == 'is':
        return '%s is %s' % (sub(e[1]), sub(e[2]))
    if k == 'isnt':
        return '%s is not %s' % (sub(e[1]), sub(e[2]))
    if k == 'isa':
        return 'isinstance(%s, %s)' % (r_expr(e[1]), PYTYPE.get(e[2], e[2]))
    if k == 'isna':
        return '(not isinstance(%s, %s))' % (r_expr(e[1]), PYTYPE.get(e[2], e[2]))
    if k == 'qd':
        # documented: value with a default when it is None
        return '(lambda __v: (%s) if __v is None else __v)(%s)' % (r_expr(e[2]), r_expr(e[1]))
    if k == 'range':
        a, b, step = r_expr(e[1]), r_expr(e[2]), ('1' if e[4] is None else r_expr(e[4]))
        if e[3]:
            return 'range((%s), (%s) + 1, (%s))' % (a, b, step)
        return 'range((%s), (%s), (%s))' % (a, b, step)
    raise ValueError('r_expr: ' + repr(e))


PYTYPE = {'Int': 'int', 'Float': 'float', 'Str': 'str', 'Bool': 'bool'}

# ----------------------------------------------------------------- statements
# ('def', name, ty|None, expr|None, fin)         def [fin] name [: ty] [:= expr]
# ('deftup', [names], expr)                       def (a, b) := expr
# ('assign', target_expr, expr)                   target := expr
# ('aug', op, target_expr, expr)                  target op= expr    op in + - * / ^ << >>
# ('print', expr)    ('expr', expr)    ('pass',)
# ('if', cond, [then], [else]|None)
# ('match', expr, [(pat_expr | '_', [body])])
# ('while', cond, [body])      ('for', var, iter_expr, [body])
# ('fun', name, [(pname, ty, default|None)], ret|None, [raises], [body])
# ('class', name, [(aname, ty, is_field, fin)], [(parent, [arg exprs])], [members])
#      members: ('field', name, ty, expr|None, fin) | ('fun', ...) with first param 'self' implied by caller
#               | ('init', [(pname, ty)], [body])
# ('return', expr|None)   ('raise', expr)
# ('handle', inner_stmt, [(var, cls, [body])])    inner_stmt: ('expr', e) | ('def', ...) | ('assign', ...) | ('return', e)
# ('defif', name, ty|None, cond, [then], [else])  def name [: ty] := if c then <block> else <block> (block form)
# ('defmatch', name, ty|None, expr, [(pat, [body])])
# ('comment', text)  ('blank',)  ('rawstmt', mamba_lines, py_lines)
#
# A block whose last statement is ('expr', e) yields e as its value (implicit
# return / branch value); to_ref makes that explicit through the `tail` mode.

IND = '    '


def m_block(stmts, ind):
    out = []
    for s in stmts:
        out.extend(m_stmt(s, ind))
    return out


def _m_suite(head, body, ind):
    """`head` followed by an indented block."""
    return [IND * ind + head] + m_block(body, ind + 1)


def m_stmt(s, ind=0):
    k = s[0]
    p = IND * ind
    if k == 'def':
        _, name, ty, ex, fin = s
        t = 'def %s%s%s' % ('fin ' if fin else '', name, (': ' + ty) if ty else '')
        if ex is not None:
            t += ' := ' + m_expr(ex)
        return [p + t]
    if k == 'deftup':
        return [p + 'def (%s) := %s' % (', '.join(s[1]), m_expr(s[2]))]
    if k == 'assign':
        return [p + '%s := %s' % (m_expr(s[1]), m_expr(s[2]))]
    if k == 'aug':
        return [p + '%s %s= %s' % (m_expr(s[2]), s[1], m_expr(s[3]))]
    if k == 'print':
        return [p + 'print(%s)' % m_expr(s[1])]
    if k == 'expr':
        return [p + m_expr(s[1])]
    if k == 'pass':
        return [p + 'pass']
    if k == 'comment':
        return [p + '#' + s[1]]
    if k == 'blank':
        return ['']
    if k == 'rawstmt':
        return [p + l for l in s[1]]
    if k == 'if':
        out = _m_suite('if %s then' % m_expr(s[1]), s[2], ind)
        if s[3] is not None:
            out += _m_suite('else', s[3], ind)
        return out
    if k == 'match':
        return [p + 'match %s' % m_expr(s[1])] + m_arms(s[2], ind)
    if k == 'while':
        return _m_suite('while %s do' % m_expr(s[1]), s[2], ind)
    if k == 'for':
        return _m_suite('for %s in %s do' % (s[1], m_expr(s[2])), s[3], ind)
    if k == 'fun':
        return m_fun(s, ind, None)
    if k == 'class':
        return m_class(s, ind)
    if k == 'return':
        return [p + ('return' if s[1] is None else 'return ' + m_expr(s[1]))]
    if k == 'raise':
        return [p + 'raise ' + m_expr(s[1])]
    if k == 'handle':
        inner = m_stmt(s[1], ind)
        assert len(inner) == 1, inner
        out = [inner[0] + ' handle']
        for arm in s[2]:
            v, cls, body = arm[0], arm[1], arm[2]
            if len(arm) > 3 and arm[3] == 'line' and len(body) == 1 and len(m_stmt(body[0], 0)) == 1:
                out.append(IND * (ind + 1) + '%s: %s => %s' % (v, cls, m_stmt(body[0], 0)[0]))
            else:
                out += _m_suite('%s: %s =>' % (v, cls), body, ind + 1)
        return out
    if k == 'defif':
        _, name, ty, c, th, el = s
        head = 'def %s%s := if %s then' % (name, (': ' + ty) if ty else '', m_expr(c))
        return _m_suite(head, th, ind) + _m_suite('else', el, ind)
    if k == 'defmatch':
        _, name, ty, ex, arms = s
        return [p + 'def %s%s := match %s' % (name, (': ' + ty) if ty else '', m_expr(ex))] + m_arms(arms, ind)
    raise ValueError('m_stmt: ' + repr(s))


def m_arms(arms, ind):
    """match arms; an arm (pat, body, 'line') with a one-statement body is written on one line"""
    out = []
    for arm in arms:
        pat, body = arm[0], arm[1]
        head = '%s =>' % ('_' if pat == '_' else m_expr(pat))
        if len(arm) > 2 and arm[2] == 'line' and len(body) == 1:
            inner = m_stmt(body[0], 0)
            if len(inner) == 1:
                out.append(IND * (ind + 1) + head + ' ' + inner[0])
                continue
        out += _m_suite(head, body, ind + 1)
    return out


def m_params(params):
    out = []
    for prm in params:
        name, ty, default = prm[0], prm[1], prm[2] if len(prm) > 2 else None
        vararg = len(prm) > 3 and prm[3]
        t = ('vararg ' if vararg else '') + name + ((': ' + ty) if ty else '')
        if default is not None:
            t += ' := ' + m_expr(default)
        out.append(t)
    return out


def m_fun(s, ind, self_kind):
    _, name, params, ret, raises, body = s[:6]
    ps = m_params(params)
    if self_kind is not None:
        ps = [self_kind] + ps
    head = 'def %s(%s)' % (name, ', '.join(ps))
    if ret:
        head += ' -> ' + ret
    if raises:
        head += ' raise [%s]' % ', '.join(raises)
    head += ' =>'
    if len(body) == 1 and body[0][0] in ('expr', 'return', 'print', 'pass', 'raise', 'assign') and not (len(s) > 6 and s[6] == 'block'):
        inner = m_stmt(body[0], 0)
        if len(inner) == 1:
            return [IND * ind + head + ' ' + inner[0]]
    return _m_suite(head, body, ind)


def m_class(s, ind):
    _, name, cargs, parents, members = s
    head = 'class ' + name
    if cargs:
        parts = []
        for a in cargs:
            aname, ty, is_field = a[0], a[1], a[2]
            fin = len(a) > 3 and a[3]
            parts.append(('def ' if is_field else '') + ('fin ' if fin else '') + aname + ': ' + ty)
        head += '(%s)' % ', '.join(parts)
    if parents:
        head += ': ' + ', '.join(pn + ('(%s)' % ', '.join(m_expr(a) for a in pargs) if pargs is not None else '') for pn, pargs in parents)
    out = [IND * ind + head]
    for m in members:
        if m[0] == 'field':
            _, fname, ty, ex, fin = m
            t = 'def %s%s%s' % ('fin ' if fin else '', fname, (': ' + ty) if ty else '')
            if ex is not None:
                t += ' := ' + m_expr(ex)
            out.append(IND * (ind + 1) + t)
        elif m[0] == 'fun':
            selfk = m[7] if len(m) > 7 else 'self'
            out += m_fun(m, ind + 1, selfk)
        elif m[0] == 'init':
            params, body = m[1], m[2]
            # ('init', params, body, 'line'): written on one line when the body is a single statement
            out += m_fun(('fun', '__init__', params, None, [], body) + (() if len(m) > 3 and m[3] == 'line' else ('block',)), ind + 1, 'self')
        elif m[0] == 'doc':
            out.append(IND * (ind + 1) + '"""%s"""' % m[1])
        else:
            raise ValueError(m)
    return out


def to_mamba(prog):
    return '\n'.join(m_block(prog, 0)) + '\n'


# ------------------------------------------------------------------ reference

def r_block(stmts, ind, tail):
    """tail: None | ('ret',) | ('assign', name): what to do with the value of a trailing ('expr', e)."""
    out = []
    n = len(stmts)
    for i, s in enumerate(stmts):
        out.extend(r_stmt(s, ind, tail if i == n - 1 else None))
    if not out:
        out = [IND * ind + 'pass']
    return out


def _tailed(e_text, ind, tail):
    p = IND * ind
    if tail is None:
        return [p + e_text]
    if tail[0] == 'ret':
        return [p + 'return ' + e_text]
    if tail[0] == 'assign':
        return [p + '%s = %s' % (tail[1], e_text)]
    raise ValueError(tail)


def r_stmt(s, ind=0, tail=None):
    k = s[0]
    p = IND * ind
    if k == 'def':
        _, name, ty, ex, fin = s
        return [p + '%s = %s' % (name, 'None' if ex is None else r_expr(ex))]
    if k == 'deftup':
        return [p + '(%s) = %s' % (', '.join(s[1]) + (',' if len(s[1]) == 1 else ''), r_expr(s[2]))]
    if k == 'assign':
        return [p + '%s = %s' % (r_expr(s[1]), r_expr(s[2]))]
    if k == 'aug':
        op = {'^': '**'}.get(s[1], s[1])
        return [p + '%s %s= %s' % (r_expr(s[2]), op, r_expr(s[3]))]
    if k == 'print':
        return [p + 'print(%s)' % r_expr(s[1])]
    if k == 'expr':
        return _tailed(r_expr(s[1]), ind, tail)
    if k == 'pass':
        return [p + 'pass']
    if k in ('comment', 'blank'):
        return []
    if k == 'rawstmt':
        return [p + l for l in s[2]]
    if k == 'if':
        out = [p + 'if %s:' % r_expr(s[1])] + r_block(s[2], ind + 1, tail)
        if s[3] is not None:
            out += [p + 'else:'] + r_block(s[3], ind + 1, tail)
        return out
    if k == 'match':
        # first matching arm, by equality; `_` matches everything
        out = [p + '__m = %s' % r_expr(s[1])]
        first = True
        for arm in s[2]:
            pat, body = arm[0], arm[1]
            if pat == '_':
                out.append(p + ('if True:' if first else 'else:'))
                out += r_block(body, ind + 1, tail)
                break
            out.append(p + '%s __m == %s:' % ('if' if first else 'elif', r_expr(pat)))
            out += r_block(body, ind + 1, tail)
            first = False
        return out
    if k == 'while':
        return [p + 'while %s:' % r_expr(s[1])] + r_block(s[2], ind + 1, None)
    if k == 'for':
        return [p + 'for %s in %s:' % (s[1], r_expr(s[2]))] + r_block(s[3], ind + 1, None)
    if k == 'fun':
        return r_fun(s, ind, False)
    if k == 'class':
        return r_class(s, ind)
    if k == 'return':
        return [p + ('return' if s[1] is None else 'return ' + r_expr(s[1]))]
    if k == 'raise':
        return [p + 'raise ' + r_expr(s[1])]
    if k == 'handle':
        inner = s[1]
        out = [p + 'try:']
        if inner[0] == 'def':
            target = ('assign', inner[1])
            out += _tailed(r_expr(inner[3]), ind + 1, target)
        elif inner[0] == 'assign':
            target = ('assign', r_expr(inner[1]))
            out += _tailed(r_expr(inner[2]), ind + 1, target)
        elif inner[0] == 'return':
            target = ('ret',)
            out += _tailed(r_expr(inner[1]), ind + 1, target)
        else:
            target = tail
            out += _tailed(r_expr(inner[1]), ind + 1, tail)
        for arm in s[2]:
            v, cls, body = arm[0], arm[1], arm[2]
            out.append(p + 'except %s as %s:' % (cls, v))
            out += r_block(body, ind + 1, target)
        return out
    if k == 'defif':
        _, name, ty, c, th, el = s
        return ([p + 'if %s:' % r_expr(c)] + r_block(th, ind + 1, ('assign', name)) +
                [p + 'else:'] + r_block(el, ind + 1, ('assign', name)))
    if k == 'defmatch':
        _, name, ty, ex, arms = s
        return r_stmt(('match', ex, arms), ind, ('assign', name))
    raise ValueError('r_stmt: ' + repr(s))


def r_params(params):
    out = []
    for prm in params:
        name, default = prm[0], prm[2] if len(prm) > 2 else None
        vararg = len(prm) > 3 and prm[3]
        t = ('*' if vararg else '') + name
        if default is not None:
            t += '=' + r_expr(default)
        out.append(t)
    return out


def r_fun(s, ind, method):
    _, name, params, ret, raises, body = s[:6]
    ps = (['self'] if method else []) + r_params(params)
    head = IND * ind + 'def %s(%s):' % (name, ', '.join(ps))
    # implicit return of the last expression when a return type is declared
    return [head] + r_block(body, ind + 1, ('ret',) if ret else None)


OPNAMES = {'+': '__add__', '-': '__sub__', '*': '__mul__', '/': '__truediv__', '//': '__floordiv__', '^': '__pow__',
           'mod': '__mod__', '=': '__eq__', '!=': '__ne__', '<': '__lt__', '<=': '__le__', '>': '__gt__', '>=': '__ge__'}


def r_class(s, ind):
    _, name, cargs, parents, members = s
    p = IND * ind
    out = [p + 'class %s%s:' % (name, ('(%s)' % ', '.join(pn for pn, _ in parents)) if parents else '')]
    init = [m for m in members if m[0] == 'init']
    body = []
    if init:
        params, ibody = init[0][1], init[0][2]
        body.append(IND * (ind + 1) + 'def __init__(%s):' % ', '.join(['self'] + r_params(params)))
        # parents that are given arguments are initialised before the body of the constructor runs
        for pn, pargs in parents:
            if pargs is not None:
                body.append(IND * (ind + 2) + '%s.__init__(self%s)' % (pn, ''.join(', ' + r_expr(a) for a in pargs)))
        body += r_block(ibody, ind + 2, None)
    elif cargs or any(pargs is not None for _, pargs in parents):
        body.append(IND * (ind + 1) + 'def __init__(%s):' % ', '.join(['self'] + [a[0] for a in cargs]))
        stm = []
        for pn, pargs in parents:
            if pargs is not None:
                stm.append(IND * (ind + 2) + '%s.__init__(self%s)' % (pn, ''.join(', ' + r_expr(a) for a in pargs)))
        for a in cargs:
            if a[2]:
                stm.append(IND * (ind + 2) + 'self.%s = %s' % (a[0], a[0]))
        body += stm or [IND * (ind + 2) + 'pass']
    for m in members:
        if m[0] == 'field':
            _, fname, ty, ex, fin = m
            body.append(IND * (ind + 1) + '%s = %s' % (fname, 'None' if ex is None else r_expr(ex)))
        elif m[0] == 'fun':
            mm = list(m)
            mm[1] = OPNAMES.get(m[1], m[1])
            body += r_fun(tuple(mm), ind + 1, True)
    if not body:
        body = [IND * (ind + 1) + 'pass']
    return out + body


# ---------------------------------------------------------------- block scoping
# Mamba is block scoped: a definition in a nested block (or a second definition of
# the same name) introduces a NEW variable that ends with its block; Python's
# function scoping would let it leak.  The reference rendering therefore renames
# every shadowing definition to a fresh Python name for the rest of its block.

class _Scope:
    def __init__(self):
        self.counter = {}

    def fresh(self, name):
        k = self.counter.get(name, 0) + 1
        self.counter[name] = k
        return "%s__%d" % (name, k)


def _rn_expr(e, env):
    if not isinstance(e, tuple):
        return e
    k = e[0]
    if k == 'var':
        return ('var', env.get(e[1], e[1]))
    if k in ('lit', 'none'):
        return e
    if k == 'raw':
        return e
    if k == 'fstr':
        return ('fstr', [p if isinstance(p, str) else _rn_expr(p, env) for p in e[1]])
    out = [k]
    for x in e[1:]:
        if isinstance(x, tuple):
            out.append(_rn_expr(x, env))
        elif isinstance(x, list):
            out.append([_rn_expr(y, env) if isinstance(y, tuple) else y for y in x])
        else:
            out.append(x)
    return tuple(out)


def _rn_block(stmts, env, sc, bound):
    """env: name -> python name (copied per block); bound: names visible (defined) in enclosing scopes"""
    env = dict(env)
    bound = set(bound)
    out = []
    for s in stmts:
        out.append(_rn_stmt(s, env, sc, bound))
    return out


def _bind(name, env, sc, bound):
    """a definition of `name` at this point: fresh python name if it shadows something visible"""
    if name in bound:
        new = sc.fresh(name)
    else:
        new = name
    env[name] = new
    bound.add(name)
    return new


def _rn_arms(arms, env, sc, bound, rn_pat=True):
    out = []
    for arm in arms:
        pat, body = arm[0], arm[1]
        out.append((pat if pat == '_' else _rn_expr(pat, env), _rn_block(body, env, sc, bound)) + tuple(arm[2:]))
    return out


def _rn_stmt(s, env, sc, bound):
    k = s[0]
    if k == 'def':
        _, name, ty, ex, fin = s
        ex2 = None if ex is None else _rn_expr(ex, env)
        return ('def', _bind(name, env, sc, bound), ty, ex2, fin)
    if k == 'deftup':
        ex2 = _rn_expr(s[2], env)
        return ('deftup', [_bind(n, env, sc, bound) for n in s[1]], ex2)
    if k == 'assign':
        return ('assign', _rn_expr(s[1], env), _rn_expr(s[2], env))
    if k == 'aug':
        return ('aug', s[1], _rn_expr(s[2], env), _rn_expr(s[3], env))
    if k in ('print', 'expr', 'raise'):
        return (k, _rn_expr(s[1], env))
    if k == 'return':
        return ('return', None if s[1] is None else _rn_expr(s[1], env))
    if k in ('pass', 'comment', 'blank', 'rawstmt'):
        return s
    if k == 'if':
        return ('if', _rn_expr(s[1], env), _rn_block(s[2], env, sc, bound), None if s[3] is None else _rn_block(s[3], env, sc, bound))
    if k == 'match':
        return ('match', _rn_expr(s[1], env), _rn_arms(s[2], env, sc, bound))
    if k == 'while':
        return ('while', _rn_expr(s[1], env), _rn_block(s[2], env, sc, bound))
    if k == 'for':
        it = _rn_expr(s[2], env)
        env2, bound2 = dict(env), set(bound)
        v = _bind(s[1], env2, sc, bound2)
        return ('for', v, it, _rn_block(s[3], env2, sc, bound2))
    if k == 'fun':
        return _rn_fun(s, env, sc, bound)
    if k == 'class':
        _, name, cargs, parents, members = s
        ms = []
        for m in members:
            if m[0] == 'field':
                ms.append(('field', m[1], m[2], None if m[3] is None else _rn_expr(m[3], env), m[4]))
            elif m[0] == 'fun':
                ms.append(_rn_fun(m, env, sc, bound, method=True))
            elif m[0] == 'init':
                env2, bound2 = dict(env), set(bound)
                for prm in m[1]:
                    env2[prm[0]] = prm[0]
                    bound2.add(prm[0])
                ms.append(('init', m[1], _rn_block(m[2], env2, sc, bound2)) + tuple(m[3:]))
            else:
                ms.append(m)
        return ('class', name, cargs, [(pn, None if pa is None else [_rn_expr(a, {}) for a in pa]) for pn, pa in parents], ms)
    if k == 'handle':
        inner = _rn_stmt_noscope(s[1], env, sc, bound)
        arms = []
        for arm in s[2]:
            v, cls, body = arm[0], arm[1], arm[2]
            env2, bound2 = dict(env), set(bound)
            v2 = _bind(v, env2, sc, bound2)
            arms.append((v2, cls, _rn_block(body, env2, sc, bound2)) + tuple(arm[3:]))
        # the definition made by the inner statement is visible afterwards
        return ('handle', inner, arms)
    if k == 'defif':
        _, name, ty, c, th, el = s
        c2, th2, el2 = _rn_expr(c, env), _rn_block(th, env, sc, bound), _rn_block(el, env, sc, bound)
        return ('defif', _bind(name, env, sc, bound), ty, c2, th2, el2)
    if k == 'defmatch':
        _, name, ty, ex, arms = s
        ex2, arms2 = _rn_expr(ex, env), _rn_arms(arms, env, sc, bound)
        return ('defmatch', _bind(name, env, sc, bound), ty, ex2, arms2)
    raise ValueError('scope: ' + repr(s))


def _rn_stmt_noscope(s, env, sc, bound):
    return _rn_stmt(s, env, sc, bound)


def _rn_fun(s, env, sc, bound, method=False):
    name, params, ret, raises, body = s[1], s[2], s[3], s[4], s[5]
    env2, bound2 = dict(env), set(bound)
    ps = []
    for prm in params:
        default = prm[2] if len(prm) > 2 else None
        d2 = None if default is None else _rn_expr(default, env)
        ps.append((prm[0], prm[1], d2) + tuple(prm[3:]))
    for prm in params:
        # a parameter is a new variable of the function body; python scoping already separates it
        env2[prm[0]] = prm[0]
        bound2.add(prm[0])
    if method:
        env2['self'] = 'self'
    # a local definition that shadows a module-level name is a new local in Python too, but a READ of the
    # outer variable before the local definition would be an UnboundLocalError: rename locals that shadow
    return ('fun', name, ps, ret, raises, _rn_block(body, env2, sc, bound2)) + tuple(s[6:])


def scope_rename(prog):
    return _rn_block(prog, {}, _Scope(), set())


def to_ref(prog):
    return '\n'.join(r_block(scope_rename(prog), 0, None)) + '\n'
