"""C03 - totality: any input yields output or diagnostics, never a crash or hang.

S1 all strings over a 14-symbol alphabet up to length 4 (5); S2 all token
sequences over a 40-token vocabulary up to length 3 (4); S3 every single-token
mutation of the repository samples and of generated programs, and file pairs;
S4 structural families indexed by n, doubling (deep nesting, long chains, long
files, ...), with growth of the running time; S5 all parent graphs on <= 3
classes x uses, degenerate definition forms; S6 grammar-slot enumeration: every
template (definition, reassignment, handle arm, match arms, for head, class
head, function head) with every combination of slot fillers (targets x values,
binders x annotations x bodies, ...), so that every diagnostic position /
token kind (multi-line strings, doc strings, interpolations) gets rendered.  Each input
goes through the whole pipeline on a fresh 8 MiB-stack thread of an isolated
driver process (including rendering of every diagnostic).
"""
import itertools
import time

from .. import mutate, corpus, gen_prog
from . import c02

ID = "C03"
LEVEL = "exploration"
CHUNK = 1
RULE = ("every input of the finite spaces S1-S5 runs through mamba_to_python in an isolated process; verdict must be Ok(non-empty) or Err(non-empty), no panic, "
        "no abort, within the deadline; non-trivial = inputs that get past the lexer (reach parser or later stages); distinct by input text")
ASSUMPTIONS = ["stack = 8 MiB (the CLI's main thread); overflow checks and debug assertions on for the mamba crate (as under cargo test), so arithmetic overflow panics",
               "deadline 10 s per input of <= 64 tokens (three orders of magnitude above the measured 3-10 ms), re-confirmed in isolation before it is reported",
               "S4: 'small polynomial' = growth no worse than n^4 (factor 16) between doubling sizes once above 0.5 s; doubling stops after the first size that needs more than 12 s (its successor is predicted, not run); a timeout that polynomial growth does not predict is a hang"]

S1 = ["a", "1", " ", "\n", "\r", '"', "{", "}", "(", ")", ":", "=", ".", "#"]
VOCAB = ["def", "fin", "class", "type", "if", "then", "else", "match", "while", "for", "in", "do", "return", "raise", "handle", "pass", "import", "from", "as", "when",
         "self", "x", "Int", "1", '"s"', "(", ")", "[", "]", "{", "}", ":", ":=", ",", ".", "=>", "->", "+", "=", "\n", "\n    ", "?", "_", "..", "not", "isa", "|", "vararg"]


def s1(maxlen):
    for n in range(0, maxlen + 1):
        for t in itertools.product(S1, repeat=n):
            yield "".join(t)


def s2(maxlen):
    for n in range(1, maxlen + 1):
        for t in itertools.product(VOCAB, repeat=n):
            yield " ".join(t).replace(" \n", "\n").replace("\n ", "\n").replace("\n   ", "\n    ") + "\n"


def s4(n):
    """structural families of size n: (name, source)"""
    yield "nested-parens", "def x := " + "(" * n + "1" + ")" * n + "\n"
    yield "nested-lists", "def x := " + "[" * n + "1" + "]" * n + "\n"
    yield "nested-calls", "def f(a: Int) -> Int => a\ndef x := " + "f(" * n + "1" + ")" * n + "\n"
    yield "nested-blocks", "".join("    " * i + "if True then\n" for i in range(n)) + "    " * n + "print(1)\n"
    yield "if-chain", "def x := 0\n" + "".join("if x = %d then\n    print(%d)\n" % (i, i) for i in range(n))
    yield "else-if-chain", "def x := 0\n" + "".join("    " * i + "if x = %d then\n" % i + "    " * (i + 1) + "print(%d)\n" % i + "    " * i + "else\n" for i in range(n)) + "    " * n + "print(0)\n"
    yield "match-in-match", "def x := 0\n" + "".join("    " * (2 * i) + "match x\n" + "    " * (2 * i + 1) + "0 =>\n" for i in range(n)) + "    " * (2 * n) + "print(1)\n"
    yield "operator-chain", "def x := " + " + ".join(["1"] * (n + 1)) + "\n"
    yield "pow-chain", "def x := " + " ^ ".join(["1"] * (n + 1)) + "\n"
    yield "and-chain", "def x := " + " and ".join(["True"] * (n + 1)) + "\n"
    yield "compare-chain", "def x := " + " < ".join(["1"] * (n + 1)) + "\n"
    yield "unary-chain", "def x: Int := " + "-" * n + "1\n"
    yield "not-chain", "def x := " + "not " * n + "True\n"
    yield "long-file-prints", "".join("print(%d)\n" % i for i in range(n))
    yield "long-file-defs", "".join("def v%d := %d\n" % (i, i) for i in range(n))
    yield "long-file-reassign", "def x := 0\n" + "x := x + 1\n" * n
    yield "long-string", 'def x := "' + "a" * (n * 16) + '"\n'
    yield "long-interpolation", 'def a := 1\ndef x := "' + "{a}" * n + '"\n'
    yield "many-params", "def f(" + ", ".join("p%d: Int" % i for i in range(n)) + ") -> Int => 1\n"
    yield "many-args", "def f(" + ", ".join("p%d: Int" % i for i in range(n)) + ") -> Int => 1\ndef x := f(" + ", ".join(["1"] * n) + ")\n"
    yield "property-chain", "class C\n    def me(self) -> C => self\ndef c := C()\ndef x := c" + ".me()" * n + "\n"
    yield "deep-tuple-type", "def f(x: " + "(" * n + "Int" + ", Int)" * n + ") => print(1)\n"
    yield "deep-list-type", "def f(x: " + "List[" * n + "Int" + "]" * n + ") => print(1)\n"
    yield "many-classes", "".join("class C%d\n    def m(self) -> Int => %d\n" % (i, i) for i in range(n))
    yield "inheritance-chain", "class C0\n" + "".join("class C%d: C%d\n" % (i + 1, i) for i in range(n)) + "def c := C%d()\n" % n
    yield "many-fields", "class C\n" + "".join("    def f%d: Int := %d\n" % (i, i) for i in range(n))
    yield "many-arms", "def x := 0\nmatch x\n" + "".join("    %d => print(%d)\n" % (i, i) for i in range(n)) + "    _ => print(0)\n"
    yield "many-handle-arms", "".join("class E%d(m: Str): Exception(m)\n" % i for i in range(n)) + "def f() -> Int raise [" + ", ".join("E%d" % i for i in range(n)) + "] => 1\nf() handle\n" + "".join("    e: E%d => print(%d)\n" % (i, i) for i in range(n))
    yield "long-list-literal", "def l := [" + ", ".join(str(i) for i in range(n)) + "]\n"
    yield "many-blank-lines", "def x := 1" + "\n" * n + "print(x)\n"
    yield "many-comments", "def x := 1\n" + "# c\n" * n + "print(x)\n"
    yield "deep-indentation-literal", " " * (4 * n) + "print(1)\n"
    yield "union-of-many", "def c := 1\ndef x := match c\n" + "".join("    %d => %s\n" % (i, ['1', '"s"', '1.5', 'True'][i % 4]) for i in range(n)) + "    _ => None\n"


def s5():
    """all parent graphs on <= 3 classes x uses; degenerate definition forms"""
    names = ["A", "B", "C"]
    for k in (1, 2, 3):
        cl = names[:k]
        for choice in itertools.product(*[[s for r in range(0, k + 1) for s in itertools.combinations(cl, r)] for _ in cl]):
            src = ""
            for c, parents in zip(cl, choice):
                src += "class %s%s\n    def m%s(self) -> Int => 1\n" % (c, (": " + ", ".join(parents)) if parents else "", c)
            for use in ("", "def o := A()\n", "def o := A()\nprint(o.mA())\n", "def f(p: A) => print(1)\n", "def g() -> Int raise [A] => 1\n", "def o := A()\ndef q: %s := o\n" % cl[-1]):
                yield "parents:%s" % ";".join(",".join(p) for p in choice), src + use
    degenerate = ["def () := 3\n", "def (a, ()) := (1, ())\n", "def f(()) => 1\n", "class ()\n", "def := 1\n", "def x := ()\n", "def (a) := 1\n", "for () in [1] do\n    print(1)\n",
                  "def f() -> () => 1\n", "def x: () := 1\n", "match ()\n    () => 1\n", "()\n", "def f(x: ()) => 1\n", "class C(())\n", "class C: ()\n", "type ()\n", "import ()\n", "def x := [].f\n",
                  "def x := 1.\n", "def x := .5\n", "x.y.z := 1\n", "self := 1\n", "def self := 1\n", "def print := 1\n", "def Int := 1\n", "class Int\n", "def None := 1\n", "raise 1\n", "return\n", "return 1\n",
                  "def f() => return\n", "1 handle\n    e: Exception => 1\n", "def x := if True then 1\n", "if 1 then 2 else 3\n", "while 1 do\n    pass\n", "for x in 1 do\n    pass\n", "def f(x: Int := \"s\") => 1\n",
                  "class C\n    def __init__(self) => 1\n    def __init__(self) => 2\n", "def f() => 1\ndef f() => 2\n", "class C\nclass C\n", "def x := 1\ndef x := 2\n", "type T: Int when self\n", "type T: T\n",
                  "type T: U\ntype U: T\n", "class A: B\ntype B: A\n", "def f(f: Int) -> Int => f(f)\n", "def x := x\n", "def x: Int := x + 1\n", "def f() -> Int => f()\nf()\n"]
    for d in degenerate:
        yield "degenerate", d
    # user classes NAMED like a class of the default context (built-in or stub) with a parent that is one of them too, alone and next to
    # 0-6 other user classes (which of two same-named classes wins depends on how many there are), also generic shapes
    builtin = ["Int", "Float", "Complex", "Str", "Bool", "Exception", "List", "Set", "Range", "Any", "None", "Collection", "Generic", "str_iterator", "Tuple", "Callable", "object"]
    filler = "".join("class Fill%d(def a%d: Int)\n    def m%d(self) -> Int => self.a%d\n" % (i, i, i, i) for i in range(6))
    for name in builtin[:11]:
        for parent in builtin:
            if name == parent:
                continue
            for nfill, use in ((0, ""), (4, ""), (6, ""), (6, "def u: %s := %s()\n" % (name, name))):
                yield "builtin-names", "".join(filler.split("class ")[k] and "class " + filler.split("class ")[k] for k in range(1, nfill + 1)) + "class %s: %s\n" % (name, parent) + use
    for k in (2, 5, 10, 20):
        tt = ", ".join(["Int"] * k)
        yield "wide-tuples", "def f(t: (%s)) =>\n    print(t)\n    print(-2)\n" % tt
        yield "wide-tuples", "def t: (%s) := (%s)\nprint(t)\ndef u := -1\nprint(u)\n" % (tt, ", ".join(["1"] * k))
        yield "wide-tuples", "def f(t: (%s)) -> Int =>\n    def (%s) := t\n    x0\n" % (tt, ", ".join("x%d" % j for j in range(k)))
    for src in ["class A[T]: T\nclass B: A[B]\n", "class A[T]: T\n", "class A[T]: A[T]\n", "class A[T]: List[A[T]]\nclass B: A[Int]\n", "class A[T: A]\n", "class A[T]\nclass B: A[B]\ndef b := B()\n",
                "class A[T]: T\nclass B: A[B]\ndef b := B()\n", "class A[T]\ndef a: A[A[A[Int]]] := A()\n", "type A[T]: T\nclass B: A[B]\n"]:
        yield "generic-cycles", src


def s6():
    """grammar-slot enumeration: every template with every combination of slot fillers"""
    pre = 'class E1(m: Str): Exception(m)\nclass K(def a: Int)\ndef r(n: Int) -> Int raise [E1] => n\n'
    values = ["1", '"s"', "(1, 2)", "()", "None", '"ab\ncd"', '"ab\n"', '"""doc\nstring"""', '""', '"{q}"', '"a\n{q}"', "[1]", "[]", "{1}", "1E2", "K(1)", "r(1)", "x", "_", "1 +", "\\y => y"]
    targets = ["x", "(a, b)", "()", "_", "1", "x.y", "self.x", "x[0]", "(a, (b, c))", "fin x", "x: Int", "x: Str", "(a, b): (Int, Int)", "x: ()", "x: Int?"]
    for t in targets:
        for v in values:
            yield "def", pre + "def %s := %s\n" % (t, v)
    for t in ["x", "K(1).a", "self.a", "x[0]", "(a, b)", "1", "()", "_", "x.y.z"]:
        for op in [":=", "+=", "^=", "<<="]:
            for v in values[:12]:
                yield "reassign", pre + "def x := 1\n%s %s %s\n" % (t, op, v)
    binders = ["e", "_", "1", "(a, b)", "e2", "fin e", "self", "E1"]
    anns = [": E1", "", ": Int", ": (E1)", ": E1?", ": {E1, Exception}", ": Exception", ": K", ": Undefined"]
    bodies = ["1", 'print("h")', "raise E1(\"x\")", "return 1", "pass", "e", "()"]
    for b in binders:
        for a in anns:
            for body in bodies[:4] if a not in (": E1", "") else bodies:
                yield "handle-arm", pre + "def v := r(1) handle\n    %s%s => %s\n" % (b, a, body)
                yield "handle-arm-stmt", pre + "r(1) handle\n    %s%s => %s\n" % (b, a, body)
    pats = ["1", "_", "n", "(1, 2)", "(a, b)", '"s"', "1 + 1", "K(1)", "None", "n: Int", "[1]", "1 .. 2", "()", "True"]
    for p1 in pats:
        for p2 in pats[:6]:
            for subj in ["1", "(1, 2)", "K(1)", '"s"']:
                yield "match-arm", pre + "match %s\n    %s => print(1)\n    %s => print(2)\n" % (subj, p1, p2)
    for t in ["i", "(a, b)", "()", "_", "1", "i: Int", "x.y"]:
        for it in ["0 .. 3", "[1, 2]", "[(1, 2)]", "1", '"abc"', "K(1)", "{1, 2}", "0 ..= 3 .. 2", "()", "None", "[]"]:
            yield "for", pre + "for %s in %s do\n    print(1)\n" % (t, it)
    for name in ["C", "c", "1", "()", "C[T]", "C[]", "Int"]:
        for args in ["", "()", "(def a: Int)", "(a)", "(def a)", "(def a: Int := \"s\")", "(vararg a: Int)", "(1)", "(def self: Int)"]:
            for parents in ["", ": K(1)", ": K", ": K(a)", ": Int", ": Undefined", ": K, K", ": (K)", ": 1", ": C"]:
                yield "class-head", pre + "class %s%s%s\n" % (name, args, parents)
    for params in ["", "x", "x: Int", "x: Int, x: Int", "self", "fin self", "x: Int := 1, y: Int", "vararg x: Int, vararg y: Int", "x: Undefined", "(a, b): (Int, Int)", "1", "x: Int := y"]:
        for ret in ["", " -> Int", " -> ()", " -> Undefined", " -> Int?", " -> (Int, Int)"]:
            for rs in ["", " raise [E1]", " raise [Int]", " raise []", " raise [Undefined]"]:
                for body in [" => 1", " => pass", "", " =>\n    1", " => return", " =>\n    return 1\n    2"]:
                    yield "fun-head", pre + "def f(%s)%s%s%s\n" % (params, ret, rs, body)


def s7():
    """definition x repeated uses: every definition value (also those the checker can give no type) followed by every
    pair / triple of uses of the defined name - deferred constraints on the same unknown must not chase each other"""
    pre = 'class K(def a: Int)\n    def m(self) -> Int => self.a\ndef f(x: Int) -> Int => x\n'
    values = ["1", "-1", "+1", "_not_ 5", "not True", "\\x: Int => x + 1", "None ? 1", "None", "_", "[x | x in 0 .. 3]", "[]", "{}", "sqrt 4", "K(1)", "(1, 2)", "1 ..= 3", "if True then 1 else None", "undefined_name", "f", "K"]
    uses = ["print(v)", "def u%d := v.a", "def u%d := v.m()", "def u%d := v.name", "def u%d := v + 1", "def u%d := 1 + v", "def u%d := -v", 'print("{v} and {v}")', "if v then print(1)",
            "def u%d := f(v)", "def u%d := v(1)", "def u%d := v[0]", "for i%d in v do print(1)", "v := v", "def u%d := v ? 1", "def u%d := v = v"]
    for val in values:
        for a, ua in enumerate(uses):
            for b, ub in enumerate(uses):
                lines = ["def v := %s" % val, ua % 1 if "%d" in ua else ua, ub % 2 if "%d" in ub else ub]
                yield "def-use-use", pre + "\n".join(lines) + "\n"
            yield "def-use-x3", pre + "\n".join(["def v := %s" % val] + [(ua % k if "%d" in ua else ua) for k in (1, 2, 3)]) + "\n"


def other_check_sources(tier):
    """the base programs of every other check's space: a crash anywhere is reported here"""
    from .. import gen_c02
    from . import c05, c06, c07, c08, c09, c12, c13, c15, c16, c17, c20
    quick = tier == "quick"
    seen = set()

    def emit(src):
        if src not in seen:
            seen.add(src)
            return True
        return False

    for c in gen_c02.all_families("quick"):
        if emit(c["src"]):
            yield c["src"]
    for mod in (c16, c17):
        for c in mod.cases("quick", 0):
            if emit(c["src"]):
                yield c["src"]
    for _, src in c15.base_programs("quick"):
        if emit(src):
            yield src
    for _, src in c12.order_programs():
        if emit(src):
            yield src
    for name, files, ok, faulty in c13.projects("quick"):
        yield [files[p] for p in sorted(files)]
    for mod, step in ((c05, 5), (c06, 3), (c07, 3), (c08, 6), (c09, 2)):
        for i, c in enumerate(mod.cases("quick", 0)):
            if i % (step if quick else 1) == 0 and emit(c["src"]):
                yield c["src"]
    for tl in list(c20.EXPR)[:6]:
        for ul in c20.TARGETS[:6]:
            yield c20.e2e_program(tl, ul)[1]


def cases(tier, seed):
    quick = tier == "quick"
    n = 0

    def batch(family, items, size):
        nonlocal n
        buf = []
        for it in items:
            buf.append(it)
            if len(buf) >= size:
                n += 1
                yield {"id": "c03-%d" % n, "family": family, "mode": "batch", "inputs": buf, "tags": []}
                buf = []
        if buf:
            n += 1
            yield {"id": "c03-%d" % n, "family": family, "mode": "batch", "inputs": buf, "tags": []}

    # the scaling families first: they are the long poles of the schedule
    sizes = [2, 4, 8, 16, 32, 64] if quick else [2, 4, 8, 16, 32, 64, 128, 256, 512, 1024, 2048]
    fams = [name for name, _ in s4(2)]
    for fname in sorted(fams, key=lambda f: f not in ("match-in-match", "else-if-chain")):
        n += 1
        yield {"id": "c03-%d" % n, "family": "c03.S4." + fname, "mode": "scaling", "fname": fname, "sizes": sizes, "tags": ["family:" + fname]}
    yield from batch("c03.S1.strings", s1(4 if quick else 5), 400)
    yield from batch("c03.S2.tokens", s2(2 if quick else 3), 300)
    if not quick:
        # length 4 over a reduced vocabulary
        reduced = ["def", "class", "if", "then", "else", "match", "for", "in", "do", "x", "1", "(", ")", ":", ":=", ",", "=>", "\n", "\n    ", "handle"]
        yield from batch("c03.S2.tokens4", (" ".join(t).replace(" \n", "\n").replace("\n ", "\n").replace("\n   ", "\n    ") + "\n" for t in itertools.product(reduced, repeat=4)), 400)
    yield from batch("c03.S3.mutation", (c["src"] for c in c02.mutation_cases(tier)), 150)
    # file pairs: a mutated file together with a valid one
    pairs = []
    valid = [s for _, s in corpus.valid()][:6]
    for i, c in enumerate(c02.mutation_cases("quick")):
        if i % (400 if quick else 60) == 0:
            pairs.append([c["src"], valid[i % len(valid)]])
    yield from batch("c03.S3.pairs", pairs, 20)
    yield from batch("c03.S5.graphs", (src for _, src in s5()), 60)
    yield from batch("c03.S6.slots", (src for _, src in s6()), 150)
    yield from batch("c03.S7.def-uses", (x for _, x in s7()), 120)
    yield from batch("c03.pool", (c["src"] for c in gen_prog.pool("quick")), 120)
    yield from batch("c03.pool.other-checks", other_check_sources(tier), 150)


def classify(r):
    v = r["v"]
    if v == "ok":
        return None if r["out"] else ("empty-ok", "Ok with an empty list")
    if v == "err":
        return None if r["errs"] and all(e.strip() for e in r["errs"]) else ("empty-diagnostics", "Err with an empty list / empty diagnostic")
    if v == "panic":
        return ("panic", "%s: %s" % (r.get("loc"), r.get("msg")))
    if v == "abort":
        return ("abort", "process died with %s" % r.get("signal"))
    if v == "timeout":
        return ("timeout", "no answer within the deadline")
    return ("protocol", str(r)[:100])


def panic_tags(kind, detail):
    import re
    tags = ["crash:" + kind]
    m = re.match(r"(/repo/)?(src/[^:]+):(\d+)", detail)
    if m:
        tags.append("at:" + m.group(2))
    return tags


def evaluate(case, drv):
    res = {"fail": [], "nontrivial": False, "stats": {}, "key": case["id"], "evals": 0}
    fam = case["family"]
    if case["mode"] == "batch":
        nontriv = 0
        for inp in case["inputs"]:
            files = [("/proj/src/f%d.mamba" % i, s) for i, s in enumerate(inp)] if isinstance(inp, list) else [("/proj/src/f.mamba", inp)]
            r = drv.transpile(files, annotate=False, timeout=10.0 if not case.get("single") else 30.0)
            res["evals"] += 1
            c = classify(r)
            past_lexer = r["v"] == "ok" or (r["v"] == "err" and not any("unrecognized character" in e or "not terminated" in e or "valid character" in e or "return carriage" in e for e in r["errs"]))
            nontriv += 1 if past_lexer else 0
            res["stats"][fam + "." + r["v"]] = res["stats"].get(fam + "." + r["v"], 0) + 1
            if c:
                kind, detail = c
                res["fail"].append({"family": fam, "kind": kind, "detail": detail, "tags": panic_tags(kind, detail),
                                    "case": {"id": case["id"], "family": fam, "mode": "batch", "inputs": [inp], "single": True, "tags": []}})
        res["nontrivial"] = nontriv > 0
        res["stats"][fam + ".past-lexer"] = nontriv
        res["nontrivial_n"] = nontriv
        if case["id"].endswith("5") and case["inputs"]:
            res["sample"] = {"family": fam, "input": case["inputs"][len(case["inputs"]) // 2] if not isinstance(case["inputs"][0], list) else case["inputs"][0]}
        return res
    # scaling family
    times = []
    for n in case["sizes"]:
        src = dict(s4(n))[case["fname"]]
        best = None
        r = None
        for rep in range(2 if n <= 64 else 1):
            if rep and best is not None and best > 0.5:
                break
            t0 = time.time()
            r = drv.transpile1(src, timeout=60.0)
            dt = time.time() - t0
            best = dt if best is None else min(best, dt)
            res["evals"] += 1
            if r["v"] in ("abort", "timeout", "panic"):
                break
        times.append((n, round(best, 4), r["v"]))
        if r["v"] == "timeout" and len(times) >= 2 and times[-2][1] * 16.0 >= 60.0:
            # the previous size already predicted this one beyond the deadline at polynomial growth: stop, no verdict
            times[-1] = (n, 60.0, "beyond-deadline")
            break
        c = classify(r)
        if best is not None and best > 12.0 and not c:
            break  # larger sizes would only measure patience; growth so far is judged below
        if c:
            kind, detail = c
            res["fail"].append({"family": fam, "kind": kind, "detail": "n=%d: %s" % (n, detail), "tags": panic_tags(kind, detail) + ["n:%d" % n] + case["tags"],
                                "case": {"id": case["id"], "family": fam, "mode": "scaling", "fname": case["fname"], "sizes": [n], "tags": case["tags"]}})
            break
    res["nontrivial"] = True
    res["stats"][fam + ".max-n-completed"] = max([t[0] for t in times if t[2] in ("ok", "err")] or [0])
    # growth: between doubling sizes above 0.5 s, no worse than n^4 (factor 16)
    for (n1, t1, v1), (n2, t2, v2) in zip(times, times[1:]):
        if v2 in ("ok", "err") and t2 > 0.5 and t1 > 0.02 and t2 / t1 > 16.0:
            res["fail"].append({"family": fam, "kind": "superpolynomial-growth", "detail": "n=%d: %.2fs, n=%d: %.2fs (x%.1f)" % (n1, t1, n2, t2, t2 / t1), "tags": case["tags"] + ["n:%d" % n2],
                                "case": {"id": case["id"], "family": fam, "mode": "scaling", "fname": case["fname"], "sizes": [n1, n2], "tags": case["tags"]}})
            break
    res["timings"] = times
    res["sample"] = {"family": fam, "timings": times}
    return res


def coverage(tier, agg):
    nt = sum(v for k, v in agg["stats"].items() if k.endswith(".past-lexer")) + sum(1 for k in agg["stats"] if k.endswith(".max-n-completed"))
    return {"distinct_nontrivial": int(nt), "max_n_completed": {k.replace("c03.S4.", "").replace(".max-n-completed", ""): v for k, v in agg["stats"].items() if k.endswith(".max-n-completed")}}
