"""Contexts x payloads: the composition scheme of the statically-checked properties (C05-C09, C04, C19).

A *payload* is the smallest snippet exercising one rule instance:
    {"kind", "prelude": [top-level lines], "body": [statement lines placed in the hole],
     "expect": "ok" | "err", "tags": [...], "fault": index into body of the faulty line (or ("prelude", i)) | None}
A *context* is a program template with a hole that is reached exactly once at
run time.  Contexts compose to a nesting depth; names are made unique per level.
"""

IND = "    "


def indent(lines, n=1):
    return [IND * n + l if l else l for l in lines]


class Ctx:
    def __init__(self, name, fn, value_ok=True):
        self.name = name
        self.fn = fn  # (level, body_lines) -> (prelude_lines, lines)


def _top(lv, body):
    return [], body


def _fun(lv, body):
    # definitions live at top level (Mamba has no local functions): the hole holds the call,
    # so an inner `fun` context means "in a function called from the enclosing position"
    return ["def cf%d() =>" % lv] + indent(body), ["cf%d()" % lv]


def _method(lv, body):
    return ["class Cm%d" % lv, IND + "def run(self) =>"] + indent(body, 2), ["def cmo%d := Cm%d()" % (lv, lv), "cmo%d.run()" % lv]


def _for(lv, body):
    return [], ["for ci%d in 0 .. 1 do" % lv] + indent(body)


def _while(lv, body):
    return [], ["def cw%d := 0" % lv, "while cw%d < 1 do" % lv, IND + "cw%d := cw%d + 1" % (lv, lv)] + indent(body)


def _then(lv, body):
    return [], ["def ct%d := True" % lv, "if ct%d then" % lv] + indent(body)


def _else(lv, body):
    return [], ["def ce%d := False" % lv, "if ce%d then" % lv, IND + 'print("skipped")', "else"] + indent(body)


def _arm(lv, body):
    # every arm ends in a unit statement: a match that is the last statement of an enclosing arm is
    # checked as an expression, whose arms must agree on a type - a rule of its own, not the one under test
    return [], ["def cm%d := 1" % lv, "match cm%d" % lv, IND + "1 =>"] + indent(body, 2) + [IND * 2 + 'print("arm end")', IND + "_ =>", IND * 2 + 'print("other arm")']


def _harm(lv, body):
    pre = ["class CtxE%d(msg: Str): Exception(msg)" % lv, "def ctxr%d(n: Int) -> Int raise [CtxE%d] =>" % (lv, lv), IND + "if n > 0 then", IND * 2 + 'raise CtxE%d("ctx")' % lv, IND + "n"]
    return pre, ["ctxr%d(1) handle" % lv, IND + "cex%d: CtxE%d =>" % (lv, lv)] + indent(body, 2) + [IND * 2 + 'print("arm end")']


CONTEXTS = [Ctx("top", _top), Ctx("fun", _fun), Ctx("method", _method), Ctx("for", _for), Ctx("while", _while),
            Ctx("then", _then), Ctx("else", _else), Ctx("arm", _arm), Ctx("harm", _harm)]
BY_NAME = {c.name: c for c in CONTEXTS}


def context_paths(depth, outer_only=None):
    """all context compositions up to `depth` (outermost first)"""
    paths = [[c] for c in CONTEXTS]
    if depth >= 2:
        for o in CONTEXTS:
            for i in CONTEXTS:
                if i.name == "top":
                    continue
                if o.name == "top":
                    continue
                paths.append([o, i])
    return paths


def compose(path, payload):
    """returns (source text, line number (1-based) of the faulty payload line or None)"""
    body = list(payload["body"])
    prelude = list(payload.get("prelude", []))
    marker = None
    fault = payload.get("fault")
    if isinstance(fault, int):
        marker = "\x00FAULT\x00"
        body[fault] = body[fault] + marker
    elif isinstance(fault, tuple) and fault[0] == "prelude":
        marker = "\x00FAULT\x00"
        prelude[fault[1]] = prelude[fault[1]] + marker
    lines = body
    ctx_pre = []
    for lv, c in reversed(list(enumerate(path))):
        pre, lines = c.fn(lv, lines)
        ctx_pre = ctx_pre + pre
    all_lines = prelude + ctx_pre + lines
    line_no = None
    if marker:
        for i, l in enumerate(all_lines):
            if marker in l:
                line_no = i + 1
                all_lines[i] = l.replace(marker, "")
    return "\n".join(all_lines) + "\n", line_no


def path_name(path):
    return ">".join(c.name for c in path)


# Independent, legal statements put at the very START of the file: the verdict on the rest must not depend on them.  Each one
# leaves something behind in the checker's per-file state (constraint sets forked by a branch, shadowing offsets, caught classes).
NOISE = {
    "none-in-branch": ["def zn0: Int? := 1", "def zc0 := True", "if zc0 then", "    zn0 := None", "else", '    print("z")'],
    "shadow-in-branches": ["def zc1 := True", "if zc1 then", "    def zl: Int := 1", "    print(zl)", "else", '    def zl: Str := "s"', "    print(zl)"],
    "handle-and-match": ["class ZE(msg: Str): Exception(msg)", "def zr(n: Int) -> Int raise [ZE] => n", "def zm: Int := zr(1) handle", "    err: ZE => 0", "match zm", "    1 => print(1)", "    other => print(other)"],
}


def cases_for(payloads, depth, family, tier_paths=None, noise=(), noise_only=False):
    """the complete product contexts x payloads (x the given noise prefixes, as additional cases; noise_only: without the plain ones)"""
    paths = tier_paths or context_paths(depth)
    n = 0
    for p in payloads:
        use_paths = paths
        if p.get("contexts") == "top-only":
            use_paths = [[BY_NAME["top"]]]
        elif isinstance(p.get("contexts"), (list, tuple)):
            use_paths = [path for path in paths if all(c.name in p["contexts"] for c in path)]
        for path in use_paths:
            src, line = compose(path, p)
            if not noise_only:
                n += 1
                yield {"id": "%s-%d" % (family, n), "family": "%s.%s" % (family, p["kind"]), "src": src, "expect": p["expect"],
                       "fault_line": line, "tags": list(p["tags"]) + ["ctx:" + path_name(path), "expect:" + p["expect"]]}
            for nz in noise:
                lines = NOISE[nz]
                n += 1
                yield {"id": "%s-%sz%d" % (family, "n" if noise_only else "", n), "family": "%s.%s" % (family, p["kind"]), "src": "\n".join(lines) + "\n" + src, "expect": p["expect"],
                       "fault_line": None if line is None else line + len(lines),
                       "tags": list(p["tags"]) + ["ctx:" + path_name(path), "expect:" + p["expect"], "noise:" + nz]}
