"""C20 - assignability is a sound order.

The real `Name::is_superset_of` is evaluated by mvdrv for ALL ordered pairs of a
finite type universe built through the public API; the order laws are then
checked over all pairs and all triples of that matrix (bitset rows), the nominal
fragment is compared with an independently computed ancestor closure, union
algebra is checked up to mutual assignability, and the whole matrix is
recomputed under several owned hash seeds.  End-to-end: `def x: U := v` with
`v: T` is accepted by the full pipeline iff the matrix says T <= U.
"""
import json
import re
import subprocess

from ..pool import MVDRV, SHIM

ID = "C20"
LEVEL = "model_checking"
CHUNK = 16
RULE = ("states = types of the universe; transitions = evaluations of the real is_superset_of (every ordered pair, "
        "under every seed) plus one full-pipeline transpilation per end-to-end pair; laws are evaluated on all pairs/triples "
        "of the computed matrix; non-trivial = pairs for which the implementation answered true (the relation is not empty) "
        "and every end-to-end pair whose two definitions are individually accepted")
ASSUMPTIONS = [
    "an Err from is_superset_of (e.g. \"Type 'T' is undefined\" for Collection vs Tuple) counts as 'not assignable' and is reported separately",
    "union algebra is judged up to mutual assignability, not by == on the stored member sets",
    "hash seeds are owned through the getrandom shim; the matrix is recomputed under each seed on a fresh thread",
]

UNIVERSE = ("class A\nclass B: A\nclass C: A\nclass D: B, C\nclass U\n"
            "class E1(msg: Str): Exception(msg)\nclass E2(msg: Str): E1(msg)\nclass IL: List[Int]\nclass St: IL\n")
EXPR = {"Int": "1", "Float": "1.5", "Str": '"a"', "Bool": "True", "A": "A()", "B": "B()", "C": "C()", "D": "D()",
        "U": "U()", "E1": 'E1("m")', "E2": 'E2("m")', "Exception": 'Exception("m")'}
TARGETS = ["Int", "Float", "Complex", "Str", "Bool", "A", "B", "C", "D", "U", "E1", "E2", "Exception", "Any"]


def run_subtype(depth, nseeds, seed0, threads=16):
    import os
    env = dict(os.environ, LD_PRELOAD=SHIM)
    p = subprocess.run([MVDRV, "subtype", str(depth), str(nseeds), str(seed0), str(threads)], stdout=subprocess.PIPE,
                       stderr=subprocess.PIPE, env=env)
    out = {"S": None, "M": None, "E": []}
    for line in p.stdout.decode("utf-8").splitlines():
        if line[:2] in ("S ", "M "):
            out[line[0]] = json.loads(line[2:])
        elif line.startswith("E "):
            out["E"].append(json.loads(line[2:]))
    out["rc"] = p.returncode
    out["err"] = p.stderr.decode()[-500:]
    return out


def cases(tier, seed):
    r = run_subtype(1, 1, seed)
    if not r["M"]:
        yield {"id": "e2e-matrix", "family": "c20.e2e", "broken": r["err"] or "no matrix"}
        return
    labels, rows = r["M"]["labels"], r["M"]["rows"]
    idx = {l: i for i, l in enumerate(labels)}
    n = 0
    for tl in list(EXPR) + [t + "?" for t in EXPR]:
        for ul in TARGETS + [t + "?" for t in TARGETS if t != "Any"]:
            if tl not in idx or ul not in idx:
                continue
            if ul == "Any" and tl.endswith("?"):
                continue  # whether T? may flow into Any is not stated by the property: not judged
            n += 1
            want = rows[idx[ul]][idx[tl]] == "1"
            yield {"id": "e2e-%d" % n, "family": "c20.e2e", "sub": tl, "sup": ul, "want": want, "tags": ["sub:" + tl, "sup:" + ul]}


def e2e_program(sub, sup):
    if sub.endswith("?"):
        first = "def v: %s := None\n" % sub
    else:
        first = "def v: %s := %s\n" % (sub, EXPR[sub])
    return UNIVERSE + first, UNIVERSE + first + "def x: %s := v\n" % sup


def evaluate(case, drv):
    if case.get("broken"):
        return {"machinery": "subtype matrix unavailable: " + case["broken"]}
    if case.get("mode") == "law":
        return {"fail": replay_law(case), "nontrivial": True}
    base, full = e2e_program(case["sub"], case["sup"])
    rb = drv.transpile1(base)
    res = {"fail": [], "nontrivial": False, "stats": {}, "key": case["id"]}
    if rb["v"] != "ok":
        res["stats"]["c20.e2e.base-rejected"] = 1
        return res
    r = drv.transpile1(full)
    if r["v"] not in ("ok", "err"):
        res["fail"].append({"family": "c20.e2e", "kind": "crash", "detail": json.dumps(r)[:300], "tags": case["tags"]})
        return res
    res["nontrivial"] = True
    got = r["v"] == "ok"
    res["outcome"] = "accepted" if got else "rejected"
    if got != case["want"]:
        res["fail"].append({"family": "c20.e2e", "kind": "pipeline-disagrees-with-relation",
                            "detail": "def x: %s := (v: %s) is %s by the pipeline but is_superset_of says %s" % (
                                case["sup"], case["sub"], "accepted" if got else "rejected", case["want"]),
                            "tags": case["tags"]})
    if case["id"].endswith("7"):
        res["sample"] = {"e2e": full}
    return res


def law_tags(law, detail):
    tags = ["law:" + law]
    if "None" in detail:
        tags.append("with:None")
    if re.search(r"\[[^\]]*\?", detail):
        tags.append("with:nullable-generic-argument")
    if "Any" in detail:
        tags.append("with:Any")
    return tags


def replay_law(case):
    r = run_subtype(case.get("depth", 1), case.get("nseeds", 2), case.get("seed0", 0))
    out = []
    for v in (r["S"] or {}).get("violations", []):
        if v["law"] == case["law"] and v["detail"] == case["detail"]:
            out.append({"family": "c20.laws", "kind": v["law"], "detail": v["detail"], "tags": law_tags(v["law"], v["detail"])})
    return out


def direct(tier, seed, agg):
    depth, nseeds = (1, 6) if tier == "quick" else (2, 24)
    r = run_subtype(depth, nseeds, seed)
    s = r["S"]
    if r["rc"] != 0 or not s or "panic" in s:
        yield {"machinery": "mvdrv subtype failed rc=%s %s %s" % (r["rc"], r["err"], s), "cid": "laws"}
        return
    agg["extra"]["states"] = s["types"]
    agg["extra"]["transitions"] = s["pairs"] * s["seeds"]
    agg["extra"]["traces_validated_against_impl"] = s["pairs"] * s["seeds"]
    agg["extra"]["law_instances_checked"] = s["laws"]
    agg["extra"]["law_instances_failed"] = s["failed"]
    agg["extra"]["is_superset_of_errors"] = s["errors"]
    agg["extra"]["error_examples"] = r["E"][:5]
    agg["extra"]["seeds"] = s["seeds"]
    agg["extra"]["true_pairs"] = s["true_pairs"]
    agg["extra"]["exhaustive"] = True
    agg["samples"].extend([{"types": s["samples"]}])
    agg["nontrivial_keys"].update(("pair", i) for i in range(s["true_pairs"]))
    yield {"evals": s["pairs"] * s["seeds"], "cid": "laws", "stats": {"c20.laws.pairs": s["pairs"]}}
    for v in s["violations"]:
        case = {"id": "law", "family": "c20.laws", "mode": "law", "law": v["law"], "detail": v["detail"], "depth": depth,
                "nseeds": 2 if v["law"] != "seed-independent" else nseeds, "seed0": seed, "tags": law_tags(v["law"], v["detail"])}
        yield {"fail": [{"family": "c20.laws", "kind": v["law"], "detail": v["detail"], "tags": law_tags(v["law"], v["detail"])}],
               "case": case, "cid": "laws", "evals": 0}
