"""C04 - accepted programs do not go wrong.

Base: the running programs of the M0 pool.  Mutants: every single-point
type-changing edit of their trees (each expression position replaced by a
canonical expression of every other type; an argument dropped / added at each
call; each use renamed to an undefined or differently typed name; each member
name changed; a name shadowed at the head of each nested block).  If the
pipeline accepts a mutant, its output is executed: the uncaught exception must
not be TypeError / AttributeError / NameError / UnboundLocalError.
"""
from .. import gen_c04
from ..pyside import run_python, went_wrong

ID = "C04"
LEVEL = "exploration"
CHUNK = 32
RULE = ("every single-point edit of every base program (bases: the M0 pool, thinned in the quick tier); non-trivial = accepted by the pipeline "
        "and executed; distinct by source text")
ASSUMPTIONS = ["CPython is the judge: the programs are closed, so one execution is the program's behaviour", "programs are checked with annotate off (the checker does not depend on it)"]


def element_programs():
    """programs the checker refuses today: every ELEMENT of a heterogeneous tuple / of collections, taken by index, by iteration and by
    destructuring, used with an operation that only ANOTHER element's type supports.  Whatever the checker makes of them, an accepted
    one must run without TypeError."""
    vals = {"Int": "1", "Str": '"a"', "Float": "2.5", "Bool": "True"}
    only = {"Int": "%s - 1", "Str": '%s + "x"', "Float": "%s - 0.5", "Bool": "not %s"}   # an operation on an element of that type
    n = 0
    import itertools
    for types in list(itertools.permutations(["Int", "Str", "Float"], 2)) + list(itertools.permutations(["Int", "Str", "Bool"], 3)):
        tt = "(%s)" % ", ".join(types)
        tv = "(%s)" % ", ".join(vals[t] for t in types)
        for i, ti in enumerate(types):
            for tj in types:
                use = only[tj]
                for form, lines in (
                        ("index-literal", ["def r := %s" % (use % ("%s[%d]" % (tv, i)))]),
                        ("index-variable", ["def t: %s := %s" % (tt, tv), "def r := %s" % (use % ("t[%d]" % i))]),
                        ("index-parameter", ["def g(t: %s) =>" % tt, "    def r := %s" % (use % ("t[%d]" % i)), "    print(r)", "g(%s)" % tv]),
                        ("index-annotated", ["def t: %s := %s" % (tt, tv), "def e: %s := t[%d]" % (tj, i), "def r := %s" % (use % "e")]),
                        ("destructure", ["def t: %s := %s" % (tt, tv), "def (%s) := t" % ", ".join("d%d" % k for k in range(len(types))), "def r := %s" % (use % ("d%d" % i))]),
                        ("iterate", ["def t: %s := %s" % (tt, tv), "for e in t do", "    def r := %s" % (use % "e"), "    print(r)"]),
                        ("index-field", ["class Hf", "    def t: %s := %s" % (tt, tv), "def h := Hf()", "def r := %s" % (use % ("h.t[%d]" % i))]),
                        ("index-returned", ["def mk() -> %s => %s" % (tt, tv), "def r := %s" % (use % ("mk()[%d]" % i))])):
                    n += 1
                    yield {"id": "c04-el%d" % n, "family": "c04.E2.element", "src": "\n".join(lines) + "\n", "desc": "%s %s[%d] as %s" % (form, tt, i, tj), "base": "el",
                           "tags": ["mut:element-use", "form:" + form, "tuple:" + tt, "index:%d" % i, "as:" + tj]}


def argument_programs():
    """every value of a small type universe (scalars, tuples, collections, an instance) handed to a parameter of every OTHER type through every
    kind of call: plain function, method, constructor, class argument, user operator, built-in operator.  The parameter is used with an
    operation only its declared type supports, so an accepted mismatch raises TypeError / AttributeError at run time."""
    U = [("Int", "1", "%s - 1"), ("Str", '"a"', '%s + "x"'), ("Float", "2.5", "%s - 0.5"), ("Bool", "True", "not %s"),
         ("(Int, Int)", "(1, 2)", "%s[0] - 1"), ("(Str, Str)", '("a", "b")', '%s[0] + "x"'), ("(Int, Str)", '(1, "a")', "%s[0] - 1"),
         ("List[Int]", "[1, 2]", "%s[0] - 1"), ("Set[Int]", "{1, 2}", "%s.union({3})"), ("Kc", "Kc()", "%s.kf - 1")]
    pre = ["class Kc", "    def kf: Int := 3"]
    n = 0
    for pt, pv, puse in U:
        use = puse % "p"
        for at, av, _ in U:
            if at == pt:
                continue
            for hold in ("literal", "variable"):
                arg = av if hold == "literal" else "w"
                bind = [] if hold == "literal" else ["def w: %s := %s" % (at, av)]
                forms = [
                    ("function", ["def g(p: %s) =>" % pt, "    print(%s)" % use] + bind + ["g(%s)" % arg]),
                    ("function-second", ["def g(a: Int, p: %s) =>" % pt, "    print(%s)" % use] + bind + ["g(0, %s)" % arg]),
                    ("method", ["class Hm", "    def m(self, p: %s) =>" % pt, "        print(%s)" % use, "def h := Hm()"] + bind + ["h.m(%s)" % arg]),
                    ("method-returning", ["class Hm", "    def m(self, p: %s) -> Int =>" % pt, "        print(%s)" % use, "        1", "def h := Hm()"] + bind + ["def r: Int := h.m(%s)" % arg, "print(r)"]),
                    ("method-second", ["class Hm", "    def m(self, a: Int, p: %s) =>" % pt, "        print(%s)" % use, "def h := Hm()"] + bind + ["h.m(0, %s)" % arg]),
                    ("constructor", ["class Hm", "    def v: Int := 0", "    def __init__(self, p: %s) =>" % pt, "        print(%s)" % use] + bind + ["def h := Hm(%s)" % arg, "print(h.v)"]),
                    ("user-operator", ["class Hm", "    def __add__(self, p: %s) -> Int =>" % pt, "        print(%s)" % use, "        1", "def h := Hm()"] + bind + ["def r := h + %s" % arg, "print(r)"]),
                    ("self-call", ["class Hm", "    def m(self, p: %s) =>" % pt, "        print(%s)" % use, "    def n(self, q: %s) => self.m(q)" % at, "def h := Hm()"] + bind + ["h.n(%s)" % arg]),
                ]
                if pt in ("Int", "Float", "Str"):
                    lhs = {"Int": "5", "Float": "5.5", "Str": '"s"'}[pt]
                    forms.append(("builtin-operator", bind + ["def r := %s + %s" % (lhs, arg), "print(r)"]))
                    forms.append(("builtin-compare", bind + ["def r := %s < %s" % (lhs, arg), "print(r)"]))
                for form, lines in forms:
                    n += 1
                    yield {"id": "c04-ar%d" % n, "family": "c04.E3.argument", "src": "\n".join(pre + lines) + "\n", "desc": "%s: %s %s for a %s parameter" % (form, hold, at, pt), "base": "ar",
                           "tags": ["mut:argument-type", "form:" + form, "arg:" + at, "param:" + pt, "hold:" + hold]}


def cases(tier, seed):
    yield from element_programs()
    yield from argument_programs()
    yield from gen_c04.cases(tier)


def evaluate(case, drv):
    res = {"fail": [], "nontrivial": False, "stats": {}, "key": case["src"], "evals": 1}
    r = drv.transpile1(case["src"])
    fam = ".".join(case["family"].split(".")[:2])
    if r["v"] == "err":
        res["stats"][fam + ".rejected"] = 1
        res["outcome"] = "rejected"
        return res
    if r["v"] != "ok":
        res["stats"][fam + ".crash"] = 1
        res["outcome"] = "crash"
        return res
    x = run_python(r["out"][0], timeout=0.4)   # the programs run in milliseconds; a mutant that loops for ever is not judged, only cut short
    res["evals"] = 2
    res["nontrivial"] = True
    res["stats"][fam + ".accepted"] = 1
    if x["compile_error"]:
        res["outcome"] = "accepted-uncompilable"
        res["stats"][fam + ".uncompilable"] = 1
        return res
    w = went_wrong(x)
    res["outcome"] = "accepted-" + (w or "fine")
    if w:
        import re
        msg = re.sub(r"'[^']*'", "'_'", x["exc_msg"])[:80]
        res["fail"].append({"family": case["family"], "kind": "went-wrong-" + w, "detail": "%s: %s  [%s]" % (w, x["exc_msg"][:150], case["desc"]),
                            "tags": case["tags"] + ["exc:" + w, "msg:" + msg], "observed": r["out"][0][-600:]})
    if case["id"].endswith("777"):
        res["sample"] = {"id": case["id"], "edit": case["desc"], "mamba": case["src"][-400:]}
    return res
