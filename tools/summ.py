#!/usr/bin/env python3
"""summ.py <check-output-file>: (debug helper) re-run nothing; summarise replays of a property by cluster."""
import json, glob, sys, collections, re
prop = sys.argv[1]
seen = collections.OrderedDict()
for p in sorted(glob.glob('/verif/replays/%s/*.json' % prop)):
    d = json.load(open(p))
    f = d['failure']
    k = (f['family'], f['kind'], re.sub(r'\d+', 'N', str(f['detail']))[:70])
    seen.setdefault(k, []).append(d)
for k, v in seen.items():
    d = v[0]
    print('=====', k, len(v), d['failure'].get('tags'))
    c = d['case']
    src = c.get('src') or c.get('input') or json.dumps(c)[:300]
    print(src[-int(sys.argv[2]) if len(sys.argv) > 2 else -300:])
    print('--- out:', str(d['failure'].get('observed', ''))[-(int(sys.argv[3]) if len(sys.argv) > 3 else 300):])
