#!/bin/bash
# tools/try_mutant.sh <patch.diff> <Cxx> [tier] : apply a seeded change to /repo, run the check, undo.
patch="$1"; prop="$2"; tier="${3:-quick}"
cd /repo || exit 2
if ! git diff --quiet; then echo "repo has uncommitted changes"; exit 2; fi
git apply "$patch" || { echo "patch does not apply"; exit 2; }
cd /verif
./check "$prop" "$tier" > /tmp/try_mutant.out 2>/tmp/try_mutant.err
rc=$?
git -C /repo checkout -- . 
git -C /repo clean -fdq -- src 2>/dev/null
echo "rc=$rc"
grep -E "^(VIOLATION|KNOWN-FINDING)" /tmp/try_mutant.out | head -${SHOW:-8}
grep -E "^  (family|detail)" /tmp/try_mutant.out | head -${SHOW:-8}
tail -2 /tmp/try_mutant.err
exit 0
