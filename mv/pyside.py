"""Python-side oracles: compile / execute emitted Python, AST utilities."""
import ast
import builtins
import contextlib
import io
import signal
import sys


class _Deadline(BaseException):
    pass


def _on_alarm(signum, frame):
    raise _Deadline()


def compile_check(src, name="out.py"):
    """None if `src` compiles as a module, else the error text."""
    try:
        import warnings
        with warnings.catch_warnings():
            warnings.simplefilter("ignore")
            compile(src, name, "exec")
        return None
    except (SyntaxError, ValueError, IndentationError) as e:
        return "%s: %s" % (type(e).__name__, e)
    except RecursionError as e:
        return "RecursionError: %s" % e


def run_python(src, timeout=2.0, name="out.py"):
    """Execute module source in a fresh namespace.
    Returns dict(compile_error, stdout(list of lines), exc (class name or None), exc_mro, exc_msg, timeout)."""
    res = {"compile_error": None, "stdout": [], "exc": None, "exc_mro": [], "exc_msg": "", "timeout": False}
    try:
        import warnings
        with warnings.catch_warnings():
            warnings.simplefilter("ignore")
            code = compile(src, name, "exec")
    except (SyntaxError, ValueError, IndentationError, RecursionError) as e:
        res["compile_error"] = "%s: %s" % (type(e).__name__, e)
        return res
    out = io.StringIO()
    glob = {"__name__": "__main__", "__builtins__": builtins}
    old = signal.signal(signal.SIGALRM, _on_alarm)
    signal.setitimer(signal.ITIMER_REAL, timeout)
    try:
        with contextlib.redirect_stdout(out), contextlib.redirect_stderr(io.StringIO()):
            exec(code, glob)
    except _Deadline:
        res["timeout"] = True
    except BaseException as e:  # noqa
        res["exc"] = type(e).__name__
        res["exc_mro"] = [c.__name__ for c in type(e).__mro__]
        res["exc_msg"] = str(e)[:300]
    finally:
        signal.setitimer(signal.ITIMER_REAL, 0)
        signal.signal(signal.SIGALRM, old)
    res["stdout"] = out.getvalue().splitlines()
    return res


def behaviour(res):
    """The observable behaviour C01 compares: printed lines + uncaught exception class."""
    return (tuple(res["stdout"]), res["exc"])


WRONG = ("TypeError", "AttributeError", "NameError", "UnboundLocalError")


def went_wrong(res):
    for c in res.get("exc_mro", []):
        if c in WRONG:
            return c
    return None


# ----------------------------------------------------------------------
# AST helpers

def parse(src):
    return ast.parse(src)


def dump(tree):
    return ast.dump(tree, include_attributes=False)


class _Erase(ast.NodeTransformer):
    """Remove variable / parameter / return annotations."""

    def visit_AnnAssign(self, node):
        self.generic_visit(node)
        if node.value is None:
            # `x: T` alone declares nothing at run time
            return ast.Pass()
        return ast.Assign(targets=[node.target], value=node.value, lineno=0, col_offset=0)

    def visit_FunctionDef(self, node):
        self.generic_visit(node)
        node.returns = None
        return node

    def visit_arg(self, node):
        node.annotation = None
        return node


TYPING_NAMES = {"Optional", "Union", "Tuple", "Callable", "Any", "NewType", "List", "Set", "Dict", "Iterable"}


def erase_annotations(tree):
    tree = _Erase().visit(tree)
    # drop `from typing import ...` lines (needed only by annotations) - but only
    # names that are unused after erasure
    used = {n.id for n in ast.walk(tree) if isinstance(n, ast.Name)}
    body = []
    for st in tree.body:
        if isinstance(st, ast.ImportFrom) and st.module == "typing":
            keep = [a for a in st.names if (a.asname or a.name) in used]
            if not keep:
                continue
            st.names = keep
        body.append(st)
    tree.body = body
    ast.fix_missing_locations(tree)
    return tree


def sexpr(node):
    """Canonical s-expression of a Python expression AST (operators + operands + sides)."""
    if isinstance(node, ast.Expression):
        return sexpr(node.body)
    if isinstance(node, ast.Expr):
        return sexpr(node.value)
    if isinstance(node, ast.BinOp):
        return "(%s %s %s)" % (type(node.op).__name__, sexpr(node.left), sexpr(node.right))
    if isinstance(node, ast.UnaryOp):
        return "(%s %s)" % (type(node.op).__name__, sexpr(node.operand))
    if isinstance(node, ast.BoolOp):
        # Python flattens `a and b and c`; rebuild as left-nested for comparison is wrong:
        # keep the flat n-ary form and let the producer of the expectation flatten too.
        parts = []

        def flat(n):
            if isinstance(n, ast.BoolOp) and type(n.op) is type(node.op):
                for v in n.values:
                    flat(v)
            else:
                parts.append(sexpr(n))
        flat(node)
        return "(%s %s)" % (type(node.op).__name__, " ".join(parts))
    if isinstance(node, ast.Compare):
        parts = [sexpr(node.left)]
        for op, c in zip(node.ops, node.comparators):
            parts.append(type(op).__name__)
            parts.append(sexpr(c))
        return "(Compare %s)" % " ".join(parts)
    if isinstance(node, ast.IfExp):
        return "(IfExp %s %s %s)" % (sexpr(node.test), sexpr(node.body), sexpr(node.orelse))
    if isinstance(node, ast.Lambda):
        return "(Lambda %s)" % sexpr(node.body)
    if isinstance(node, ast.Call):
        return "(Call %s %s)" % (sexpr(node.func), " ".join(sexpr(a) for a in node.args))
    if isinstance(node, ast.Attribute):
        return "(Attr %s %s)" % (sexpr(node.value), node.attr)
    if isinstance(node, ast.Subscript):
        return "(Index %s %s)" % (sexpr(node.value), sexpr(node.slice))
    if isinstance(node, ast.Name):
        return node.id
    if isinstance(node, ast.Constant):
        return repr(node.value)
    if isinstance(node, ast.Tuple):
        return "(Tuple %s)" % " ".join(sexpr(e) for e in node.elts)
    if isinstance(node, ast.List):
        return "(List %s)" % " ".join(sexpr(e) for e in node.elts)
    if isinstance(node, ast.Set):
        return "(Set %s)" % " ".join(sexpr(e) for e in node.elts)
    if isinstance(node, ast.Slice):
        return "(Slice %s %s %s)" % tuple(sexpr(x) if x is not None else "-" for x in (node.lower, node.upper, node.step))
    if isinstance(node, ast.JoinedStr):
        return "(FStr %s)" % " ".join(sexpr(v) for v in node.values)
    if isinstance(node, ast.FormattedValue):
        return "(Fmt %s)" % sexpr(node.value)
    return "(%s)" % type(node).__name__
