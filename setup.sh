#!/bin/bash
# Build the framework offline from files on disk: getrandom shim, Rust driver
# (links the mamba crate from /repo's working tree, feature `verif`), and the
# real mamba CLI binary (used by the C13 project check).
set -e
cd "$(dirname "$0")"
export CARGO_NET_OFFLINE=true
mkdir -p .build evidence
gcc -O2 -shared -fPIC -o .build/hashseed.so shim/hashseed.c -ldl
(cd driver && CARGO_TARGET_DIR=/verif/.target cargo build --release --offline --quiet)
(cd /repo && CARGO_TARGET_DIR=/verif/.target/repo cargo build --release --offline --quiet --bin mamba)
echo "setup ok"
