"""C04: single-point type-changing edits of M0 program trees."""
from . import gen_prog
from .lang import lit_int, lit_float, lit_str, lit_bool, var, to_mamba

# canonical expressions of "every other type"
REPL = [("Int", lit_int(1)), ("Float", lit_float("1.5")), ("Str", lit_str("s")), ("Bool", lit_bool(True)), ("None", ('none',)),
        ("Zz", ('new', 'Zz', [])), ("List", ('list', [lit_int(1)]))]
PRELUDE = [('class', 'Zz', [], [], [('fun', 'zmeth', [], 'Int', [], [('expr', lit_int(1))])]),
           ('def', 'other_s', 'Str', lit_str("o"), False), ('def', 'other_i', 'Int', lit_int(3), False)]

EXPR_KINDS = {'lit', 'var', 'bin', 'un', 'call', 'mcall', 'field', 'new', 'list', 'set', 'tuple', 'index', 'ifx', 'sqrt', 'fstr', 'in', 'is', 'isnt', 'isa', 'isna', 'qd', 'none', 'paren', 'raw', 'range'}


def is_expr(x):
    if not (isinstance(x, tuple) and len(x) > 0 and isinstance(x[0], str) and x[0] in EXPR_KINDS):
        return False
    if x[0] == 'field' and len(x) != 3:
        return False  # a class member ('field', name, ty, init, fin), not a field access
    return True


def sub_slots(node):
    """indices of node whose content is an expression / list of expressions / list of statements etc. (generic walk)"""
    return range(1, len(node))


def sites(node, path=()):
    """yield (path, expr, role) for every expression position in a program tree"""
    if isinstance(node, list):
        for i, x in enumerate(node):
            yield from sites(x, path + (i,))
        return
    if not isinstance(node, tuple) or not node:
        return
    k = node[0] if isinstance(node[0], str) else None
    if is_expr(node):
        role = "expr"
        yield (path, node, role)
        if k in ('lit', 'var', 'none', 'raw'):
            return
        for i in range(1, len(node)):
            if isinstance(node[i], (tuple, list)):
                yield from sites(node[i], path + (i,))
        return
    # statement or structural tuple
    for i in range(0, len(node)):
        x = node[i]
        if isinstance(x, (tuple, list)):
            if k == 'assign' and i == 1:
                continue  # assignment targets are not replaced
            if k == 'aug' and i == 2:
                continue
            yield from sites(x, path + (i,))


def replace(node, path, new):
    if not path:
        return new
    i = path[0]
    if isinstance(node, list):
        return node[:i] + [replace(node[i], path[1:], new)] + node[i + 1:]
    return node[:i] + (replace(node[i], path[1:], new),) + node[i + 1:]


def get(node, path):
    for i in path:
        node = node[i]
    return node


def roughly_typed(e):
    """a guess of the static type of a leaf-ish expression, to skip same-type replacements"""
    if e[0] == 'lit':
        t = e[2]
        if t in ('True', 'False'):
            return 'Bool'
        if t.startswith('"'):
            return 'Str'
        if '.' in t:
            return 'Float'
        return 'Int'
    if e[0] == 'none':
        return 'None'
    if e[0] == 'list':
        return 'List'
    return None


_CUR = {"in_raise": False}


def mutants(prog, rename_bound=True):
    """yield (description, mutated program, tags)"""
    for desc, mprog, tags in _mutants_raw(prog, rename_bound):
        yield desc, mprog, tags + (["in:raise"] if _CUR["in_raise"] else []) + (["in:parent-args"] if _CUR.get("in_parent") else [])


def _mutants_raw(prog, rename_bound=True):
    """yield (description, mutated program, tags, site path or None)"""
    base = PRELUDE + prog
    off = len(PRELUDE)
    bound = bound_names(prog) if rename_bound else []
    for path, e, role in sites(prog):
        p = (path[0] + off,) + path[1:]
        # is the site inside the operand of a `raise` statement?
        anc, in_raise, in_parent = prog, False, False
        for i in path:
            if isinstance(anc, tuple) and anc and anc[0] == 'class' and i == 3:
                in_parent = True
            anc = anc[i]
            if isinstance(anc, tuple) and anc and anc[0] == 'raise':
                in_raise = True
        _CUR["in_raise"] = in_raise
        _CUR["in_parent"] = in_parent
        # 1. replace by a canonical expression of every other type
        ty = roughly_typed(e)
        for tname, r in REPL:
            if tname == ty:
                continue
            if e[0] == 'range':
                continue
            yield ("replace:%s@%s" % (tname, "/".join(map(str, path))), replace(base, p, r), ["mut:replace", "with:" + tname, "site:" + e[0]])
        # 2. arguments: drop one / add one
        if e[0] in ('call', 'new'):
            args = e[2]
            for i in range(len(args)):
                yield ("drop-arg%d@%s" % (i, path), replace(base, p, (e[0], e[1], args[:i] + args[i + 1:])), ["mut:drop-arg", "site:" + e[0]])
            yield ("add-arg@%s" % (path,), replace(base, p, (e[0], e[1], args + [lit_int(9)])), ["mut:add-arg", "site:" + e[0]])
        if e[0] == 'mcall':
            args = e[3]
            for i in range(len(args)):
                yield ("drop-arg%d@%s" % (i, path), replace(base, p, ('mcall', e[1], e[2], args[:i] + args[i + 1:])), ["mut:drop-arg", "site:mcall"])
            yield ("add-arg@%s" % (path,), replace(base, p, ('mcall', e[1], e[2], args + [lit_int(9)])), ["mut:add-arg", "site:mcall"])
            yield ("rename-method@%s" % (path,), replace(base, p, ('mcall', e[1], e[2] + "_x", e[3])), ["mut:rename-member", "site:mcall"])
        if e[0] == 'field':
            yield ("rename-field@%s" % (path,), replace(base, p, ('field', e[1], e[2] + "_x")), ["mut:rename-member", "site:field"])
        # 3. rename a use to an undefined / differently typed name
        if e[0] == 'var' and e[1] not in ('self',):
            yield ("rename-undefined@%s" % (path,), replace(base, p, var(e[1] + "_undefined")), ["mut:rename-undefined", "site:var"])
            yield ("rename-other-str@%s" % (path,), replace(base, p, var("other_s")), ["mut:rename-other", "with:Str", "site:var"])
            yield ("rename-other-int@%s" % (path,), replace(base, p, var("other_i")), ["mut:rename-other", "with:Int", "site:var"])
            # ... and to every other name the program binds ANYWHERE (a local of another block or function, a loop variable,
            # a match capture, a handle binder, a parameter): out of scope at this use unless the checker's scoping leaks
            for other in bound:
                if other != e[1]:
                    extra = []
                    anc = prog
                    for i in path:
                        if isinstance(anc, tuple) and anc and anc[0] == 'handle' and i == 2 and anc[1][0] == 'def' and anc[1][1] == other:
                            extra = ["in:own-handle-arm"]   # inside an arm of the handle that guards the definition of `other`
                        anc = anc[i]
                    yield ("rename-bound:%s@%s" % (other, path), replace(base, p, var(other)), ["mut:rename-bound", "to:" + other, "site:var"] + extra)
        if e[0] == 'call':
            yield ("rename-function@%s" % (path,), replace(base, p, ('call', e[1] + "_undefined", e[2])), ["mut:rename-undefined", "site:call"])
    _CUR["in_raise"] = False
    _CUR["in_parent"] = False
    # 4. shadow a name inside each block: insert `def <name>: Str := "s"` at the head of every nested block that uses a variable
    for path, blk in blocks(prog):
        used = [x[1] for _, x, _ in sites(blk) if x[0] == 'var' and x[1] != 'self']
        for name in sorted(set(used))[:2]:
            p = (path[0] + off,) + path[1:]
            yield ("shadow:%s@%s" % (name, path), replace(base, p, [('def', name, 'Str', lit_str("sh"), False)] + blk), ["mut:shadow-in-block"])


def bound_names(node, acc=None):
    """every variable-like name a program binds anywhere: definitions, tuple definitions, loop variables, parameters,
    handle binders, single-identifier match patterns (captures)"""
    top = acc is None
    if top:
        acc = []
    if isinstance(node, list):
        for x in node:
            bound_names(x, acc)
    elif isinstance(node, tuple) and node and isinstance(node[0], str):
        k = node[0]
        if k in ('def', 'defif', 'defmatch') and isinstance(node[1], str):
            acc.append(node[1])
        elif k == 'deftup':
            acc.extend(n for n in node[1] if isinstance(n, str))
        elif k == 'for' and isinstance(node[1], str):
            acc.append(node[1])
        elif k == 'fun':
            for prm in node[2]:
                if isinstance(prm, (tuple, list)) and prm and isinstance(prm[0], str):
                    acc.append(prm[0])
        elif k == 'handle':
            for arm in node[2]:
                if isinstance(arm[0], str):
                    acc.append(arm[0])
        for x in node[1:]:
            if isinstance(x, (list, tuple)):
                bound_names(x, acc)
    elif isinstance(node, tuple):
        for x in node:
            if isinstance(x, (list, tuple)):
                bound_names(x, acc)
    if top:
        seen, out = set(), []
        for n in acc:
            if n.isidentifier() and n not in seen and n != 'self' and n != '_':
                seen.add(n)
                out.append(n)
        return out[:14]
    return acc


def blocks(node, path=()):
    """nested statement lists (bodies of if/for/while/match arms/functions), not the top-level one"""
    if isinstance(node, list):
        if path and node and all(isinstance(s, tuple) and s and isinstance(s[0], str) and not is_expr(s) for s in node):
            yield (path, node)
        for i, x in enumerate(node):
            yield from blocks(x, path + (i,))
    elif isinstance(node, tuple):
        for i, x in enumerate(node):
            if isinstance(x, (list, tuple)):
                yield from blocks(x, path + (i,))


def base_programs(tier):
    quick = tier == "quick"
    for f in "STFAOHKRE":
        gen = gen_prog.FAMILIES[f]("quick")
        for i, case in enumerate(gen):
            if f == "E":
                if 'depth:1' not in case["tags"] or case["family"] not in ("E.init", "E.arg", "E.ret", "E.cond", "E.index", "E.fstr", "E.field"):
                    continue
                if quick and i % 4:
                    continue
            if f == "R" and (quick or i % 4) and not (i % 40 == 0):
                continue
            if f == "K" and (i % (16 if quick else 3)):
                continue
            if f in ("F", "A") and quick and i % 10:
                continue
            if f == "H" and quick and i % 9:
                continue
            if f == "S" and quick and case["family"] == "S.method-locals":
                continue
            if f == "O" and quick and i % 2 and "inherit" not in case["family"]:
                continue
            yield case


def cases(tier):
    n = 0
    for case in base_programs(tier):
        prog = case["prog"]
        # quick tier: renaming a use to every name bound elsewhere only on the scoping bases (family S), which exist for it
        for desc, mprog, tags in mutants(prog, rename_bound=(tier != "quick" or case["family"].startswith("S."))):
            try:
                src = to_mamba(mprog)
            except Exception:
                continue
            n += 1
            yield {"id": "c04-%d" % n, "family": "c04." + case["family"].split(".")[0] + "." + tags[0].split(":")[1], "src": src, "base": case["id"], "desc": desc,
                   "tags": tags + ["base:" + case["family"]]}
