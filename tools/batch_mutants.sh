#!/bin/bash
# tools/batch_mutants.sh <dir with <Cxx>/<n>/{patch.diff,demo.*}> <results file> [tier]
# For every candidate seeded change: demo on the clean tree (must pass), then apply, baseline,
# demo (must fail), own check (should report), undo.  /repo must be clean.
root="$1"; out="$2"; tier="${3:-quick}"
cd /repo || exit 2
if ! git diff --quiet; then echo "repo has uncommitted changes"; exit 2; fi
demo() { # dir -> rc
    if [ -f "$1/demo.py" ]; then python3 "$1/demo.py" /repo >/tmp/bm_demo.out 2>&1; else bash "$1/demo.sh" /repo >/tmp/bm_demo.out 2>&1; fi
}
: > "$out"
for d in "$root"/*/*; do
    [ -f "$d/patch.diff" ] || continue
    prop=$(basename "$(dirname "$d")"); n=$(basename "$d")
    [ -n "$ONLY" ] && [[ ! "$prop/$n" =~ $ONLY ]] && continue
    demo "$d"; clean_rc=$?
    if ! git -C /repo apply --check "$d/patch.diff" 2>/dev/null; then echo "$prop/$n patch-does-not-apply" >> "$out"; continue; fi
    git -C /repo apply "$d/patch.diff"
    bl=$(cd /repo && python3 /verif/tools/baseline_check.py 2>&1 | tail -1)
    demo "$d"; mut_rc=$?
    (cd /verif && ./check "$prop" "$tier" > /tmp/bm_check.out 2>/tmp/bm_check.err); rc=$?
    git -C /repo checkout -- .
    git -C /repo clean -fdq -- src 2>/dev/null
    {
        echo "== $prop/$n demo_clean=$clean_rc demo_mutant=$mut_rc check_rc=$rc baseline: $bl"
        grep -E "^(VIOLATION|KNOWN-FINDING|MACHINERY)" /tmp/bm_check.out | head -4
        grep -E "^  (family|detail)" /tmp/bm_check.out | head -4
        grep -E "NOTE" /tmp/bm_check.out | head -2
    } >> "$out"
done
echo done >> "$out"
