"""C12 - determinism: verdict and emitted bytes depend on the input alone.

The only nondeterminism of the process - the per-thread SipHash keys of
HashMap/HashSet - is owned through the getrandom shim.  Explored:
  * ownership: the same (program, seed) twice must give identical bytes (else a
    machinery error: something else is nondeterministic);
  * seeds: every program under a seed set chosen so that every iteration order
    of every 2- and 3-element probe set is induced by some seed (measured);
  * histories: BFS over all ordered pairs (triples) of a program subset run back
    to back on ONE thread, each compared with the program run alone;
  * threads: the same request on 16 free-running threads at once;
  * processes: fresh driver processes without the shim (really random keys).
One verdict and one byte string per (program, annotate) is the invariant.
"""
import itertools
import json
import os
import subprocess

from .. import gen_prog, corpus
from ..pool import MVDRV, SHIM, Driver

ID = "C12"
LEVEL = "model_checking"
CHUNK = 4
RULE = ("states = (program, annotate, seed | history | thread) executions of the real pipeline; transitions = runs; every one is the implementation itself; "
        "non-trivial = program accepted (its bytes are compared across all executions); distinct by program text")
ASSUMPTIONS = ["RandomState is the only source of nondeterminism in the crate (no clock, RNG, statics: scanned at run time and reported); its keys are owned through LD_PRELOAD getrandom",
               "the seed set is calibrated on probe sets (each HashSet instance has its own key, so this measures the seed set, it does not prove coverage of every internal set)",
               "diagnostic TEXT of rejected programs may legitimately vary; only verdict and emitted bytes are compared"]


def type_expression_programs():
    """every union of two members drawn from a depth-2 type grammar (primitives, tuples and lists whose
    argument is a primitive or a union of two primitives), written as parameter, return and variable
    annotation: the printed member order of nested unions must not follow a hash order"""
    prims = ["Int", "Str", "Float"]
    args = prims + ["{%s, %s}" % p for p in itertools.combinations(prims, 2)]
    members = list(prims) + ["(%s, Int)" % a for a in args] + ["List[%s]" % a for a in args]
    out = []
    for a, b in itertools.combinations(members, 2):
        u = "{%s, %s}" % (a, b)
        out.append(("tyexpr:%s" % u, "def f(x: %s) -> Int => 1\ndef g(x: Int, y: %s) => print(1)\n" % (u, u)))
    return out


def order_programs():
    """programs biased to order-sensitive constructs"""
    out = []
    members = {"f": "def f%d: Int := %d", "m": "def m%d(self) -> Int => %d", "g": "def g%d: Str := \"%d\""}
    # class bodies with <= 5 members in every interleaving of fields and methods
    for n in (2, 3, 4, 5):
        for seq in itertools.product("fm", repeat=n):
            if n == 5 and seq.count("f") not in (2, 3):
                continue
            body = ["    " + members[k] % (i, i) for i, k in enumerate(seq)]
            for head in ("class K", "class K(def a: Int)", "class K(def a: Int): P(a)"):
                pre = ["class P(def x: Int)"] if "P(a)" in head else []
                out.append(("members:" + "".join(seq) + ":" + head.replace("class K", ""), "\n".join(pre + [head] + body) + "\n"))
    # unions from if / match with 2-3 types
    tys = {"Int": "1", "Str": '"s"', "Float": "1.5", "Bool": "True", "A": "A()", "B": "B()"}
    for combo in itertools.permutations(list(tys), 2):
        a, b = combo
        out.append(("union2:%s,%s" % combo, "class A\nclass B\ndef c := True\ndef x := if c then %s else %s\ndef y: {%s, %s} := x\n" % (tys[a], tys[b], a, b)))
    for combo in itertools.combinations(list(tys), 3):
        a, b, c = combo
        out.append(("union3:%s,%s,%s" % combo, "class A\nclass B\ndef n := 1\ndef x := match n\n    1 => %s\n    2 => %s\n    _ => %s\ndef y: {%s, %s, %s} := x\n" % (tys[a], tys[b], tys[c], a, b, c)))
        out.append(("union3-param:%s,%s,%s" % combo, "class A\nclass B\ndef f(p: {%s, %s, %s}) => print(1)\nf(%s)\n" % (a, b, c, tys[a])))
    out.extend(type_expression_programs())
    out.append(("nullable-union", "def n := 1\ndef x := match n\n    1 => 1\n    2 => None\n    _ => \"s\"\n"))
    # several classes, two parents, same-named generic / non-generic classes, tuples, dicts
    out.append(("two-parents", "class P1\n    def a(self) -> Int => 1\n    def s(self) -> Int => 1\nclass P2\n    def b(self) -> Int => 2\n    def s(self) -> Int => 2\nclass Q: P1, P2\n    def c(self) -> Int => self.a() + self.b()\ndef q := Q()\nprint(q.s())\n"))
    out.append(("redeclared-parent-field", "class P\n    def y: Int := 1\nclass Q: P\n    def y: Str := \"s\"\ndef q := Q()\ndef z := q.y\n"))
    out.append(("class-named-List", "class List(def v: Int)\ndef l := List(1)\ndef m := [1, 2]\nprint(l.v)\n"))
    out.append(("class-named-Set", "class Set(def v: Int)\ndef s := Set(1)\ndef t := {1, 2}\nprint(s.v)\n"))
    out.append(("class-named-Range", "class Range(def v: Int)\ndef r := Range(1)\nfor i in 0 .. 2 do\n    print(i)\n"))
    out.append(("many-classes", "".join("class C%d(def v%d: Int)\n    def m(self) -> Int => self.v%d\n" % (i, i, i) for i in range(6)) + "def o := C3(1)\nprint(o.m())\n"))
    out.append(("tuple-types", "def t: (Int, Str, Float) := (1, \"a\", 1.5)\ndef (a, b, c) := t\nprint(a)\n"))
    out.append(("dict-literal", "def d := {\"a\" => 1, \"b\" => 2, \"c\" => 3}\nprint(d[\"a\"])\n"))
    out.append(("set-literal", "def s := {3, 1, 2}\nfor i in s do\n    print(i)\n"))
    out.append(("imports-all", "type T\n    def n(self) -> Str?\ndef t: (Int, Str) := (1, \"a\")\ndef u: {Int, Str} := 1\ndef a: Any := 1\ndef f(g: Int -> Int) -> Int? => g(1)\nprint(sqrt 4.0)\n"))
    out.append(("handle-union", "class E1(m: Str): Exception(m)\nclass E2(m: Str): Exception(m)\ndef r(n: Int) -> Int raise [E1, E2] => n\ndef v := r(1) handle\n    e: E1 => \"a\"\n    e: E2 => 2.5\n"))
    return out


def programs(tier):
    quick = tier == "quick"
    progs = order_programs()
    for i, (p, s) in enumerate(corpus.valid()):
        if quick and i % 3:
            continue
        progs.append(("corpus:" + p, s))
    pool = list(gen_prog.pool("quick", "OHTFA"))
    for c in pool[::(9 if quick else 3)]:
        progs.append(("pool:" + c["id"], c["src"]))
    return progs


def probe(frm, count):
    env = dict(os.environ, LD_PRELOAD=SHIM)
    p = subprocess.run([MVDRV, "seedprobe", str(frm), str(count)], stdout=subprocess.PIPE, env=env)
    rows = []
    for line in p.stdout.decode().splitlines():
        if line.startswith("P "):
            rows.append(json.loads(line[2:]))
    return rows


def select_seeds(base, want):
    """greedy: seeds until every order of every 2- and 3-element probe set has been induced"""
    rows = probe(base, 400)
    import math
    nsets = len(rows[0]["orders"])
    sizes = [len(o) for o in rows[0]["orders"]]
    need = {i: math.factorial(sizes[i]) for i in range(nsets) if sizes[i] <= 3}
    seen = {i: set() for i in range(nsets)}
    chosen = []
    for r in rows:
        gain = sum(1 for i in need if r["orders"][i] not in seen[i])
        if gain or len(chosen) < want and all(len(seen[i]) == need[i] for i in need):
            chosen.append(r["seed"])
            for i in range(nsets):
                seen[i].add(r["orders"][i])
        if all(len(seen[i]) == need[i] for i in need) and len(chosen) >= want:
            break
    covered = all(len(seen[i]) == need[i] for i in need)
    cov4 = {i: len(seen[i]) for i in range(nsets) if sizes[i] == 4}
    return chosen, covered, {"orders_seen_per_probe_set": {str(i): len(seen[i]) for i in range(nsets)}, "probe_set_sizes": sizes, "four_element_orders_seen_of_24": cov4}


_SEEDS = {}


def seeds_for(tier, seed):
    key = (tier, seed)
    if key not in _SEEDS:
        _SEEDS[key] = select_seeds(seed * 1000, 10 if tier == "quick" else 64)
    return _SEEDS[key]


def cases(tier, seed):
    seeds, covered, info = seeds_for(tier, seed)
    progs = programs(tier)
    n = 0
    for name, src in progs:
        n += 1
        yield {"id": "c12-s%d" % n, "family": "c12.seeds", "mode": "seeds", "name": name, "src": src, "seeds": seeds, "covered": covered, "tags": ["prog:" + name.split(":")[0]]}
    # histories on one thread: all ordered pairs (triples) over a subset
    subset = [p for p in progs if p[0].split(":")[0] in ("two-parents", "redeclared-parent-field", "class-named-List", "imports-all", "handle-union", "nullable-union")][:6]
    subset.append(("dog-with-parent", "class Animal\n    def legs(self) -> Int => 4\nclass Dog: Animal\ndef d := Dog()\nprint(d.legs())\n"))
    subset.append(("dog-without-parent", "class Animal\n    def legs(self) -> Int => 4\nclass Dog\ndef d := Dog()\ndef a: Animal := d\n"))
    # workloads that reuse the same names with different meanings (a stale process-wide table would show here)
    subset.append(("fun-int", "def conv(x: Int) -> Int => x\ndef r: Int := conv(1)\n"))
    subset.append(("fun-str", "def conv(x: Str) -> Str => x\ndef r: Str := conv(\"a\")\n"))
    subset.append(("field-int", "class Box(def v: Int)\ndef b := Box(1)\ndef w: Int := b.v\n"))
    subset.append(("field-str", "class Box(def v: Str)\ndef b := Box(\"s\")\ndef w: Str := b.v\n"))
    k = 2 if tier == "quick" else 3
    for hist in itertools.permutations(range(len(subset)), k):
        n += 1
        yield {"id": "c12-h%d" % n, "family": "c12.history", "mode": "history", "progs": [subset[i] for i in hist], "seed": seeds[0], "tags": ["history:" + ">".join(subset[i][0] for i in hist)]}
    for name, src in progs[::(12 if tier == "quick" else 4)]:
        n += 1
        yield {"id": "c12-t%d" % n, "family": "c12.threads", "mode": "threads", "name": name, "src": src, "seed": seeds[0], "tags": ["prog:" + name.split(":")[0]]}
    for name, src in progs[::(25 if tier == "quick" else 6)]:
        n += 1
        yield {"id": "c12-p%d" % n, "family": "c12.processes", "mode": "processes", "name": name, "src": src, "tags": ["prog:" + name.split(":")[0]]}


def obs(r):
    if r["v"] == "ok":
        return ("ok", tuple(r["out"]))
    return (r["v"], None)


def evaluate(case, drv):
    res = {"fail": [], "nontrivial": False, "stats": {}, "key": case["id"], "evals": 0}
    fam = case["family"]
    mode = case["mode"]
    if mode == "seeds":
        if not case["covered"]:
            return {"machinery": "the selected seed set does not cover every order of every 2- and 3-element probe set"}
        for ann in (False, True):
            seen = {}
            for s in case["seeds"]:
                r = drv.transpile1(case["src"], annotate=ann, seed=s)
                res["evals"] += 1
                if s == case["seeds"][0]:
                    # ownership: the same (program, seed) again
                    r2 = drv.transpile1(case["src"], annotate=ann, seed=s)
                    res["evals"] += 1
                    if obs(r2) != obs(r) or r2.get("errs") != r.get("errs"):
                        return {"machinery": "nondeterminism not owned: program %s differs between two runs with the same seed %d" % (case["name"], s)}
                seen.setdefault(obs(r), []).append(s)
            if any(o[0] == "ok" for o in seen):
                res["nontrivial"] = True
            res["stats"]["c12.seeds.distinct-%d" % len(seen)] = res["stats"].get("c12.seeds.distinct-%d" % len(seen), 0) + 1
            if len(seen) > 1:
                verdicts = {o[0] for o in seen}
                kind = "seed-dependent-verdict" if len(verdicts) > 1 else "seed-dependent-output"
                groups = sorted(seen.values(), key=len)
                detail = "%d distinct results over %d seeds (annotate %s); seeds %s vs %s" % (len(seen), len(case["seeds"]), ann, groups[0][:4], groups[-1][:4])
                outs = [o[1][0] for o in seen if o[1]]
                if len(outs) >= 2:
                    import difflib
                    d = [l for l in difflib.unified_diff(outs[0].splitlines(), outs[1].splitlines(), lineterm="", n=0) if not l.startswith(("---", "+++", "@@"))]
                    detail += "; e.g. " + " | ".join(d[:6])
                res["fail"].append({"family": fam, "kind": kind, "detail": detail, "tags": case["tags"] + ["annotate:%s" % ann] + diff_tags(outs)})
        res["outcome"] = "seeds"
        if case["id"].endswith("7"):
            res["sample"] = {"mode": "seeds", "program": case["name"], "seeds": case["seeds"][:12]}
        return res
    if mode == "history":
        # process-wide state would survive between requests of one driver: every "alone" run and the
        # history itself get a FRESH driver process
        alone = {}
        for name, src in case["progs"]:
            d1 = Driver()
            try:
                alone[name] = obs(d1.transpile1(src, annotate=True, seed=case["seed"]))
            finally:
                d1.stop()
            res["evals"] += 1
        d2 = Driver()
        try:
            h = d2.history([([("/proj/src/f.mamba", src)], True) for _, src in case["progs"]], seed=case["seed"])
        finally:
            d2.stop()
        res["evals"] += len(case["progs"])
        if h.get("v") != "hist":
            res["fail"].append({"family": fam, "kind": "history-crash", "detail": str(h)[:200], "tags": case["tags"]})
            return res
        res["nontrivial"] = True
        for (name, src), r in zip(case["progs"], h["runs"]):
            # positions >= 1 are influenced by earlier workloads on the thread (key counter, any global state)
            if (r["v"], tuple(r["out"]) if r["v"] == "ok" else None) != alone[name]:
                res["fail"].append({"family": fam, "kind": "history-dependent", "detail": "%s after %s differs from %s alone (%s vs %s)" % (
                    name, [p[0] for p in case["progs"]], name, r["v"], alone[name][0]), "tags": case["tags"]})
                break
        res["outcome"] = "history"
        if case["id"].endswith("3"):
            res["sample"] = {"mode": "history", "sequence": [p[0] for p in case["progs"]]}
        return res
    if mode == "threads":
        single = obs(drv.transpile1(case["src"], annotate=True, seed=case["seed"]))
        t = drv.threads([("/proj/src/f.mamba", case["src"])], True, 16, seed=case["seed"] + 1000)
        res["evals"] += 17
        if t.get("v") != "threads":
            res["fail"].append({"family": fam, "kind": "threads-crash", "detail": str(t)[:200], "tags": case["tags"]})
            return res
        res["nontrivial"] = True
        distinct = {(r["v"], tuple(r.get("out", [])) if r["v"] == "ok" else None) for r in t["runs"]}
        if distinct != {single}:
            res["fail"].append({"family": fam, "kind": "thread-dependent", "detail": "%d distinct results on 16 concurrent threads (verdicts %s)" % (len(distinct | {single}), sorted({d[0] for d in distinct})), "tags": case["tags"]})
        res["outcome"] = "threads"
        return res
    if mode == "processes":
        results = set()
        for i in range(4):
            d = Driver(shim=False)  # really random keys
            try:
                results.add(obs(d.transpile1(case["src"], annotate=True)))
            finally:
                d.stop()
            res["evals"] += 1
        res["nontrivial"] = True
        if len(results) > 1:
            res["fail"].append({"family": fam, "kind": "process-dependent", "detail": "%d distinct results in 4 fresh processes with random hash keys" % len(results), "tags": case["tags"], "no_confirm": True})
        res["outcome"] = "processes"
        return res
    return {"machinery": "unknown mode"}


def diff_tags(outs):
    tags = []
    if len(outs) >= 2:
        a, b = outs[0].splitlines(), outs[1].splitlines()
        if sorted(a) == sorted(b):
            tags.append("diff:line-order-only")
            moved = [l.strip() for l in a if l.strip().startswith(("def ", "class "))]
            if any(l.strip().startswith("def ") or "=" in l for l in a):
                tags.append("diff:class-member-order")
        else:
            tags.append("diff:content")
    return tags


def direct(tier, seed, agg):
    seeds, covered, info = seeds_for(tier, seed)
    agg["extra"]["seed_selection"] = {"seeds": seeds, "all_orders_of_2_and_3_element_probe_sets_covered": covered, **info}
    # static scan for global mutable state (part of the evidence, not a verdict)
    p = subprocess.run("grep -rnE 'static mut|thread_local!|lazy_static|OnceCell|OnceLock|Mutex<|RwLock<|AtomicU|AtomicI|AtomicBool|SystemTime|Instant::now|rand::' /repo/src --include=*.rs | grep -v verif_hooks | wc -l",
                       shell=True, stdout=subprocess.PIPE)
    agg["extra"]["global_state_or_clock_sites_in_src"] = int(p.stdout.decode().strip() or 0)
    return []


def coverage(tier, agg):
    runs = int(agg["evaluations"])
    return {"states": runs, "transitions": runs, "traces_validated_against_impl": runs,
            "explanation": "every state is one execution of the real pipeline under an owned seed / history / thread schedule"}
