"""C17 - the output's Python API mirrors the Mamba definitions.

All classes with <= 3 (4) members over {field with default, nullable field,
method with defaults, method without arguments, variadic method, operator
definitions, explicit __init__, doc string} in every order x class-argument
lists x parent lists, and all functions with <= 3 parameters over {plain,
default, vararg}; both annotate settings.  The signatures extracted from the
emitted module with `ast` must equal the list derived from the source.
"""
import ast
import itertools

ID = "C17"
LEVEL = "exploration"
CHUNK = 32
RULE = ("every member sequence x class-argument list x parent list (and every parameter list for functions) x annotate; expectation derived by the generator; "
        "non-trivial = accepted by the pipeline, signatures compared; distinct by source text")
ASSUMPTIONS = ["fields may be hoisted above methods (documented placement); the relative order of the methods and the relative order of the fields must be the source's",
               "a class gets __init__(self, <class arguments>) when it has class arguments or an explicit constructor; with parents only, a synthesised __init__(self) is allowed"]

MEMBERS = {
    "field": lambda i, cn: (["def fd%d: Int := %d" % (i, i)], ("field", "fd%d" % i)),
    "nfield": lambda i, cn: (["def fn%d: Int?" % i], ("field", "fn%d" % i)),
    "method": lambda i, cn: (["def m%d(self, x: Int, y: Int := 3) -> Int => x" % i], ("def", "m%d" % i, ["self", "x", "y"], ["3"], None)),
    "method0": lambda i, cn: (["def n%d(self) -> Int => 1" % i], ("def", "n%d" % i, ["self"], [], None)),
    "vmethod": lambda i, cn: (["def v%d(self, a: Int, vararg r: Int) -> Int => a" % i], ("def", "v%d" % i, ["self", "a"], [], "r")),
    "op+": lambda i, cn: (["def +(self, other: %s) -> %s => other" % (cn, cn)], ("def", "__add__", ["self", "other"], [], None)),
    "op=": lambda i, cn: (["def =(self, other: %s) -> Bool => True" % cn], ("def", "__eq__", ["self", "other"], [], None)),
    "op<": lambda i, cn: (["def <(self, other: %s) -> Bool => True" % cn], ("def", "__lt__", ["self", "other"], [], None)),
    "init": lambda i, cn: (["def __init__(self, p: Int, q: Int := 1) =>", "    print(p)"], ("def", "__init__", ["self", "p", "q"], ["1"], None)),
    "doc": lambda i, cn: (['"""doc %d"""' % i], ("doc",)),
}

CLASS_ARGS = {
    "none": ("", None, []),
    "def-a": ("(def a: Int)", (["self", "a"], [], None), ["1"]),
    "plain-a": ("(a: Int)", (["self", "a"], [], None), ["1"]),
    "def-a-default-b": ("(def a: Int, b: Int := 2)", (["self", "a", "b"], ["2"], None), ["1"]),
    "fin-a-def-b": ("(def fin a: Int, def b: Str)", (["self", "a", "b"], [], None), ["1", '"s"']),
    "def-a-vararg": ("(def a: Int, vararg r: Int)", (["self", "a"], [], "r"), ["1", "2", "3"]),
}

PARENTS = {
    "none": ([], "", []),
    "plain": (["class P0", "    def p0(self) -> Int => 0"], "P0", ["P0"]),
    "with-arg": (["class P1(def x: Int)"], "P1(a)", ["P1"]),
    "two": (["class P0", "    def p0(self) -> Int => 0", "class P1(def x: Int)"], "P0, P1(a)", ["P0", "P1"]),
    "two-swapped": (["class P0", "    def p0(self) -> Int => 0", "class P1(def x: Int)"], "P1(a), P0", ["P1", "P0"]),
    "literal-arg": (["class P2(def s: Str)"], 'P2("lit")', ["P2"]),
    "abstract": (["type T0", "    def t0(self) -> Int"], "T0", ["T0"]),
}


def class_cases(tier):
    quick = tier == "quick"
    kinds = list(MEMBERS)
    maxlen = 3 if quick else 4
    n = 0
    for ln in range(0, maxlen + 1):
        for seq in itertools.permutations(kinds, ln):
            if ln == 4 and not ({"field", "method"} <= set(seq)):
                continue
            for an, (atext, ainit, ctor_args) in CLASS_ARGS.items():
                if "init" in seq and an != "none":
                    continue
                for pn, (ppre, ptext, pbases) in PARENTS.items():
                    if "(a)" in ptext and an in ("none",):
                        continue
                    if quick and ln >= 2 and (an not in ("none", "def-a", "def-a-default-b") or pn not in ("none", "with-arg", "abstract")):
                        continue
                    lines = list(ppre)
                    head = "class Cx" + atext + ((": " + ptext) if ptext else "")
                    body = []
                    expect = []
                    for i, k in enumerate(seq):
                        ls, e = MEMBERS[k](i, "Cx")
                        body += ["    " + l for l in ls]
                        expect.append(e)
                    if pn == "abstract":
                        body.append("    def t0(self) -> Int => 9")
                        expect.append(("def", "t0", ["self"], [], None))
                    lines += [head] + body
                    init_expect = None
                    if "init" in seq:
                        init_expect = (["self", "p", "q"], ["1"], None)
                    elif ainit:
                        init_expect = ainit
                    n += 1
                    yield {"id": "c17-c%d" % n, "family": "c17.class", "src": "\n".join(lines) + "\n", "kind": "class", "expect": expect, "init": init_expect, "bases": pbases,
                           "tags": ["members:" + ",".join(seq), "args:" + an, "parents:" + pn]}


def fun_cases(tier):
    kinds = [("plain", "%s: Int", None, False), ("default", "%s: Int := 7", "7", False), ("default-str", '%s: Str := "d"', "'d'", False), ("vararg", "vararg %s: Int", None, True)]
    names = ["a", "b", "c", "d"]
    n = 0
    for k in (0, 1, 2, 3) + (() if tier == "quick" else (4,)):
        for combo in itertools.product(kinds, repeat=k):
            # keep to parameter lists Python accepts (C02-F1 covers the others)
            seen_default = False
            ok = True
            for i, (kn, fmt, dv, va) in enumerate(combo):
                if va and i != len(combo) - 1:
                    ok = False
                if dv is not None:
                    seen_default = True
                elif seen_default and not va:
                    ok = False
            if not ok:
                continue
            params = ", ".join(fmt % names[i] for i, (kn, fmt, dv, va) in enumerate(combo))
            exp_names = [names[i] for i, c in enumerate(combo) if not c[3]]
            exp_defaults = [c[2] for c in combo if c[2] is not None]
            vararg = next((names[i] for i, c in enumerate(combo) if c[3]), None)
            n += 1
            yield {"id": "c17-f%d" % n, "family": "c17.function", "src": "def fx(%s) -> Int => 1\n" % params, "kind": "function", "expect": [("def", "fx", exp_names, exp_defaults, vararg)],
                   "init": None, "bases": [], "tags": ["params:" + ",".join(c[0] for c in combo)]}
            n += 1
            yield {"id": "c17-f%d" % n, "family": "c17.method", "src": "class Mx\n    def mx(self, %s) -> Int => 1\n" % params if params else "class Mx\n    def mx(self) -> Int => 1\n",
                   "kind": "class", "expect": [("def", "mx", ["self"] + exp_names, exp_defaults, vararg)], "init": None, "bases": [], "cls": "Mx", "tags": ["params:" + ",".join(c[0] for c in combo)]}


def default_value_cases(tier):
    """one defaulted parameter, the default ranging over every KIND of value (the emitted default must be that value)"""
    values = [("Int", "7", "7"), ("Int", "-1", "-1"), ("Float", "1.5", "1.5"), ("Str", '"d"', "'d'"), ("Str", '""', "''"), ("Bool", "True", "True"), ("Int?", "None", "None"),
              ("Int", "1 + 2", "1 + 2"), ("List[Int]", "[1, 2]", "[1, 2]"), ("List[Int]", "[]", "[]"), ("Set[Int]", "{1, 2}", "{1, 2}"), ("(Int, Int)", "(1, 2)", "(1, 2)"),
              ("Dict[Int, Int]", "{1 => 2}", "{1: 2}"), ("List[Str]", '["a"]', "['a']"), ("List[List[Int]]", "[[1], [2]]", "[[1], [2]]"), ("Kd", "Kd()", "Kd()")]
    n = 0
    for ty, val, py in values:
        pre = "class Kd\n" if "Kd" in ty else ""
        tags = ["default-kind:" + val]
        n += 1
        yield {"id": "c17-d%d" % n, "family": "c17.default-values", "src": pre + "def fx(a: Int, p: %s := %s) -> Int => 1\n" % (ty, val), "kind": "function",
               "expect": [("def", "fx", ["a", "p"], [py], None)], "init": None, "bases": [], "tags": tags + ["in:function"]}
        n += 1
        yield {"id": "c17-d%d" % n, "family": "c17.default-values", "src": pre + "def fx(a: Int, p: %s := %s) -> Int =>\n    print(a)\n    1\n" % (ty, val), "kind": "function",
               "expect": [("def", "fx", ["a", "p"], [py], None)], "init": None, "bases": [], "tags": tags + ["in:function-block"]}
        n += 1
        yield {"id": "c17-d%d" % n, "family": "c17.default-values", "src": pre + "class Mx\n    def mx(self, p: %s := %s) -> Int => 1\n" % (ty, val), "kind": "class",
               "expect": [("def", "mx", ["self", "p"], [py], None)], "init": None, "bases": [], "cls": "Mx", "tags": tags + ["in:method"]}
        n += 1
        yield {"id": "c17-d%d" % n, "family": "c17.default-values", "src": pre + "class Mx\n    def v: Int\n    def __init__(self, p: %s := %s) =>\n        self.v := 1\n" % (ty, val), "kind": "class",
               "expect": [("field", "v")], "init": (["self", "p"], [py], None), "bases": [], "cls": "Mx", "tags": tags + ["in:explicit-init"]}


def cases(tier, seed):
    yield from default_value_cases(tier)
    yield from class_cases(tier)
    yield from fun_cases(tier)


def sig(fn):
    a = fn.args
    names = [x.arg for x in a.posonlyargs + a.args]
    defaults = [ast.unparse(d) for d in a.defaults]
    return ("def", fn.name, names, defaults, a.vararg.arg if a.vararg else None, [x.arg for x in a.kwonlyargs])


def evaluate(case, drv):
    res = {"fail": [], "nontrivial": False, "stats": {}, "key": case["src"], "evals": 0}
    fam = case["family"]
    for ann in (False, True):
        r = drv.transpile1(case["src"], annotate=ann)
        res["evals"] += 1
        tags = case["tags"] + ["annotate:%s" % ("on" if ann else "off")]
        if r["v"] != "ok":
            res["stats"]["%s.%s" % (fam, r["v"])] = res["stats"].get("%s.%s" % (fam, r["v"]), 0) + 1
            continue
        py = r["out"][0]
        try:
            tree = ast.parse(py)
        except SyntaxError:
            res["stats"]["c17.unparsable"] = res["stats"].get("c17.unparsable", 0) + 1
            continue
        res["nontrivial"] = True

        def fail(kind, detail):
            res["fail"].append({"family": fam, "kind": kind, "detail": detail, "tags": tags, "observed": py[:900]})

        if case["kind"] == "function":
            fns = [n for n in tree.body if isinstance(n, ast.FunctionDef)]
            want = case["expect"][0]
            got = [sig(f) for f in fns if f.name == want[1]]
            if len(got) != 1:
                fail("function-missing-or-duplicated", "%d definitions of %s" % (len(got), want[1]))
            elif tuple(got[0][:5]) != tuple(want) or got[0][5]:
                fail("signature-differs", "expected %s, emitted %s" % (want, got[0]))
            continue
        cname = case.get("cls", "Cx")
        classes = [n for n in tree.body if isinstance(n, ast.ClassDef) and n.name == cname]
        if len(classes) != 1:
            fail("class-missing-or-duplicated", "%d definitions of %s" % (len(classes), cname))
            continue
        cls = classes[0]
        bases = [ast.unparse(b) for b in cls.bases]
        if [b for b in bases if b != "ABC"] != case["bases"]:
            fail("bases-differ", "expected %s, emitted %s" % (case["bases"], bases))
        defs = [sig(n) for n in cls.body if isinstance(n, ast.FunctionDef)]
        fields = []
        for n in cls.body:
            if isinstance(n, ast.Assign):
                fields += [t.id for t in n.targets if isinstance(t, ast.Name)]
            elif isinstance(n, ast.AnnAssign) and isinstance(n.target, ast.Name):
                fields.append(n.target.id)
        want_defs = [e for e in case["expect"] if e[0] == "def" and e[1] != "__init__"]
        want_fields = [e[1] for e in case["expect"] if e[0] == "field"]
        got_defs = [d for d in defs if d[1] != "__init__"]
        if [tuple(d[:5]) for d in got_defs] != [tuple(w) for w in want_defs] or any(d[5] for d in got_defs):
            gn, wn = [d[1] for d in got_defs], [w[1] for w in want_defs]
            if sorted(gn) != sorted(wn):
                fail("method-dropped-or-duplicated", "expected methods %s, emitted %s" % (wn, gn))
            elif gn != wn:
                fail("methods-reordered", "expected order %s, emitted %s" % (wn, gn))
            else:
                fail("signature-differs", "expected %s, emitted %s" % (want_defs, [d[:5] for d in got_defs]))
        if fields != want_fields:
            if sorted(fields) != sorted(want_fields):
                fail("field-dropped-or-duplicated", "expected fields %s, emitted %s" % (want_fields, fields))
            else:
                fail("fields-reordered", "expected order %s, emitted %s" % (want_fields, fields))
        inits = [d for d in defs if d[1] == "__init__"]
        if len(inits) > 1:
            fail("constructor-duplicated", "%d __init__ definitions" % len(inits))
        elif case["init"]:
            w = ("def", "__init__") + tuple(case["init"])
            if not inits:
                fail("constructor-missing", "expected __init__%s" % (case["init"],))
            elif tuple(inits[0][:5]) != w or inits[0][5]:
                fail("constructor-signature-differs", "expected %s, emitted %s" % (w, inits[0]))
        elif inits and inits[0][2] != ["self"]:
            fail("constructor-signature-differs", "synthesised constructor takes %s" % (inits[0][2],))
        if any(e[0] == "doc" for e in case["expect"]):
            docs = [n for n in cls.body if isinstance(n, ast.Expr) and isinstance(n.value, ast.Constant) and isinstance(n.value.value, str)]
            if len(docs) != sum(1 for e in case["expect"] if e[0] == "doc"):
                fail("docstring-dropped-or-duplicated", "expected %d doc strings, emitted %d" % (sum(1 for e in case["expect"] if e[0] == "doc"), len(docs)))
    if case["id"].endswith("77"):
        res["sample"] = {"id": case["id"], "mamba": case["src"]}
    return res
