#!/usr/bin/env python3
"""Run the repository's pinned baseline in <repo_dir> (default /repo) with the
verif feature OFF (cargo nextest, process per test, as the pinned baseline was
recorded) and compare with /root/.vp/BASELINE.json: every test in stable_pass
must pass.  Exit 0 iff none is missing/failed.

usage: baseline_check.py [repo_dir] [--target-dir DIR]
"""
import json, os, re, subprocess, sys

def main():
    args = sys.argv[1:]
    repo = "/repo"
    tdir = None
    i = 0
    while i < len(args):
        if args[i] == "--target-dir":
            tdir = args[i + 1]; i += 2
        else:
            repo = args[i]; i += 1
    base = json.load(open("/root/.vp/BASELINE.json"))
    want = set(base["stable_pass"])
    env = dict(os.environ, CARGO_NET_OFFLINE="true", NO_COLOR="1", CARGO_TERM_COLOR="never")
    if tdir:
        env["CARGO_TARGET_DIR"] = tdir
    p = subprocess.run(["cargo", "nextest", "run", "--workspace", "--no-fail-fast",
                        "--test-threads", "8", "--offline"],
                       cwd=repo, env=env, stdout=subprocess.PIPE, stderr=subprocess.STDOUT, text=True)
    out = p.stdout
    passed, failed = set(), set()
    for line in out.splitlines():
        m = re.match(r"\s*(PASS|FAIL|SIGABRT|SIGSEGV|TIMEOUT|LEAK)\s+\[[^\]]*\]\s+(?:\(\s*\d+/\d+\)\s+)?(\S+)\s+(\S+)", line)
        if m:
            name = m.group(2) + "::" + m.group(3)
            (passed if m.group(1) in ("PASS", "LEAK") else failed).add(name)
    failed -= passed
    missing = sorted(want - passed)
    print("passed=%d failed=%d baseline=%d baseline_missing=%d" % (len(passed), len(failed), len(want), len(missing)))
    for n in missing[:40]:
        print("  MISSING/FAILED:", n)
    if not passed:
        print(out[-3000:])
    sys.exit(0 if not missing else 1)

main()
