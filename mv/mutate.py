"""Token-level mutation spaces over Mamba source text.

Token boundaries come from an independent regex tokenizer (not from the lexer
under test, whose positions are the subject of C18).
"""
import re

TOKEN_RE = re.compile(r'''
    (?P<nl>\r?\n[ ]*)                       # newline + indentation of the next line
  | (?P<sp>[ ]+)
  | (?P<com>\#[^\n]*)
  | (?P<str>"(?:\\.|[^"\\])*")
  | (?P<num>\d+(?:\.\d+)?(?:E-?\d*)?)
  | (?P<id>[A-Za-z_][A-Za-z0-9_]*)
  | (?P<op>::=|\.\.=|<<=|>>=|:=|\+=|-=|\*=|/=|\^=|->|=>|<=|>=|!=|<<|>>|//|::|\.\.|[-+*/^<>=(){}\[\],.:|?\\])
  | (?P<other>.)
''', re.X | re.S)

VOCAB = ["def", "fin", "if", "then", "else", "match", "while", "for", "in", "do", "class", "return", "raise", "handle",
         "x", "1", '"s"', "(", ")", ":", ":=", ",", "+", "=>"]


# every operator-like token of the language: used to replace each operator occurrence by every other operator
OPS = ["+", "-", "*", "/", "//", "^", "mod", "=", "!=", "<", "<=", ">", ">=", "<<", ">>", "and", "or", "not", "is", "isnt", "isa", "isna", "in", "?",
       ":=", "+=", "-=", "*=", "/=", "^=", "<<=", ">>=", "..", "..=", "->", "=>", "_and_", "_or_", "_xor_", "_not_", "sqrt"]


def tokenize(src):
    """list of (kind, text); concatenation of texts == src"""
    return [(m.lastgroup, m.group()) for m in TOKEN_RE.finditer(src)]


def join(toks):
    return "".join(t for _, t in toks)


def single_mutations(src, vocab=VOCAB, kinds=("delete", "duplicate", "swap", "replace", "insert")):
    """yield (description, mutated source) for every single-token mutation at every position"""
    toks = tokenize(src)
    real = [i for i, (k, _) in enumerate(toks) if k not in ("sp",)]
    for n, i in enumerate(real):
        k, t = toks[i]
        if "delete" in kinds:
            yield ("delete@%d:%s" % (n, t.strip() or k), join(toks[:i] + toks[i + 1:]))
        if k == "nl":
            continue
        if "duplicate" in kinds:
            yield ("duplicate@%d:%s" % (n, t), join(toks[:i + 1] + [("sp", " "), toks[i]] + toks[i + 1:]))
        if "swap" in kinds:
            j = next((r for r in real if r > i and toks[r][0] != "nl"), None)
            if j is not None and toks[j][1] != t:
                sw = list(toks)
                sw[i], sw[j] = sw[j], sw[i]
                yield ("swap@%d:%s<>%s" % (n, t, toks[j][1]), join(sw))
        if "op-replace" in kinds and t in OPS:
            for v in OPS:
                if v != t:
                    yield ("op-replace@%d:%s->%s" % (n, t, v), join(toks[:i] + [("x", v)] + toks[i + 1:]))
        for v in vocab:
            if "replace" in kinds and v != t:
                yield ("replace@%d:%s->%s" % (n, t, v), join(toks[:i] + [("x", v)] + toks[i + 1:]))
            if "insert" in kinds:
                yield ("insert@%d:%s" % (n, v), join(toks[:i] + [("x", v), ("sp", " ")] + toks[i:]))


def line_of_token(src, n):
    """1-based line of the n-th real token"""
    toks = tokenize(src)
    real = [i for i, (k, _) in enumerate(toks) if k not in ("sp",)]
    i = real[n]
    return join(toks[:i]).count("\n") + 1
