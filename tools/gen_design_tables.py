#!/usr/bin/env python3
"""Regenerate the machine-made tables of DESIGN.md (between <!-- BEGIN x --> / <!-- END x --> markers):
   fixes  - §12, one row per fix: commit of /repo (from known_findings.json `fixed` entries)
   open   - §13, one row per open known finding
   seeds  - §14a, the detection matrix seeded/RESULTS.md"""
import json, re, subprocess
D = "/verif/DESIGN.md"
k = json.load(open("/verif/known_findings.json"))["findings"]
fixed = [f for f in k if f.get("status") == "fixed"]
opn = [f for f in k if f.get("status") == "open"]
def esc(s):
    return str(s).replace("|", "\\|").replace("\n", " ")
t_fix = "%d genuine defects were repaired, each as one minimal unguarded `fix:` commit in `/repo`.\n\n| commit | property | repair | what failed before |\n|---|---|---|---|\n" % len(fixed)
for f in fixed:
    t_fix += "| `%s` | %s | %s | %s |\n" % (f["commit"], f["property"], esc(f["subject"][5:]), esc(f["what"])[:260])
t_open = "| id | what | zone |\n|---|---|---|\n"
for f in opn:
    t_open += "| %s | %s | `%s` |\n" % (f["id"], esc(f["what"])[:330], esc(json.dumps(f.get("match", {}), ensure_ascii=False))[:260])
try:
    res = open("/verif/seeded/RESULTS.md").read().split("\n", 2)[2]
except Exception:
    res = ""
s = open(D).read()
for name, body in (("fixes", t_fix), ("open", t_open), ("seeds", res)):
    pat = re.compile(r"(<!-- BEGIN %s -->\n).*?(<!-- END %s -->)" % (name, name), re.S)
    if pat.search(s):
        s = pat.sub(lambda m: m.group(1) + body + m.group(2), s)
    else:
        print("marker missing:", name)
open(D, "w").write(s)
print(len(fixed), "fixed,", len(opn), "open")
