#!/usr/bin/env python3
"""Refresh the `fixed` entries of known_findings.json from /repo's fix: commits (open entries are edited by hand)."""
import json, os, subprocess
P = "/verif/known_findings.json"
PROP = {  # commit subject prefix -> (property, what failed)
    "fix: lexing '<<' and '>>'": ("C18", "'a <<b': the character after '<<'/'>>' was swallowed by the lexer (token span / kinds of the pair '<<' x any token)"),
    "fix: token spans of empty, multi-line and doc strings": ("C18", "'\"\"' moved every later line up by one; multi-line strings and doc-strings had wrong end positions (overflow panic on '\"\"\"doc\"\"\"\\nfrom')"),
    "fix: tokens of an interpolated expression are positioned": ("C18", "nested tokens of '\"a\\n{b}\"' were reported on the first line of the string"),
    "fix: an unterminated string literal": ("C18", "'\"abc' (no closing quote) was accepted as Str token whose span exceeds the source"),
    "fix: indentation that is not a multiple of four": ("C18", "'   a' (3 leading spaces) produced 0 Indent and 1 Dedent"),
    "fix: a character after a backslash inside an interpolated expression": ("C18", "'\"{\\\\x => x}\"': the character after the backslash was dropped from the interpolated expression, nested spans shifted"),
    "fix: the Python printer parenthesises operands": ("C10", "'(2 + 3) * 4' printed as '2 + 3 * 4'; 61 050 of 95 450 enumerated trees/sources lost their structure"),
    "fix: a nullable type argument stays nullable": ("C20", "List[Int?] (and Set/Tuple/Dict/Collection with a nullable argument) was not assignable to itself"),
    "fix: a union that contains None or a nullable member": ("C20", "(A | B) | None = {A?, B?} but A | (B | None) = {A, B?}: union not associative, results not mutually assignable"),
    "fix: a function's last expression is returned": ("C01", "'def f(x: Int) -> Int => x + 1' returned None when annotate is off (the CLI default): 268 of 2821 quick-tier programs behaved differently from the reference; also the C11 coupling of annotate and control flow"),
    "fix: expressions interpolated in a string": ("C01", "'\"{a ^ b}\"' was emitted verbatim as f\"{a ^ b}\" (xor), '{a mod b}' / '{a = b}' as invalid Python"),
    "fix: reassigning a variable from an if or match": ("C02", "'x := if c then a else b' (block-shaped or untyped if) was emitted as 'x = if c: ...', which Python refuses"),
    "fix: a line break inside a string literal": ("C02", "'def x := \"a<LF>b\"' emitted as an unterminated single-quoted Python literal (696 of 2222 enumerated string bodies)"),
    "fix: a block of which nothing remains": ("C02", "a comment-only body of a function/branch/loop/arm emitted as an empty suite"),
    "fix: leading zeros are stripped": ("C02", "'def x := 007' emitted verbatim (320 literal-shape cases)"),
    "fix: statements that are not expressions are never wrapped": ("C02", "a function with return type ending in a loop emitted 'return while ...:'"),
    "fix: literal braces of an interpolated string": ("C02", "'\"{}{a}\"' and '\"{a}\\{\"' emitted as invalid f-strings"),
    "fix: a definition or assignment that ends a function body": ("C02", "'def h() -> Int => <newline> def r: Int := match ...' emitted 'return r: int = 4'"),
    "fix: an escaped backslash does not escape": ("C02", "'\"\\\\\"\"' (escaped backslash before the closing quote) lexed past its end; emitted literal unterminated"),
    "fix: a parameter declared nullable accepts None": ("C06", "'def f(a: Int?)' refused f(None) and f(n) with n: Int? in every context (162 over-rejections)"),
    "fix: the classes caught by a handle are no longer caught": ("C08", "an unhandled, undeclared raise after a complete handle for the same class, or inside one of its arms, was accepted (226 cases)"),
    "fix: blank and comment lines are allowed before else": ("C14", "an empty / whitespace-only / comment line before 'else', before the first arm or between arms of match/handle made a valid program unparsable (343 of 12 422 trivia placements)"),
    "fix: a class named like an internally special type no longer panics": ("C03", "'class Union' panicked the generator: 'class name should be type' (found through C15 renamings, 57 cases)"),
    "fix: a function or method named size keeps its name": ("C15", "a definition named size was emitted as __size__, its call sites were not (49 renamings to `size`; also NameError under C04)"),
    "fix: a user class called Union is rendered by its name": ("C15", "'class Union(def x: Int)' ... 'Union(1)' was emitted as '1'; as a parent it panicked ('Expected type in parent')"),
    "fix: names in a user import are reproduced verbatim": ("C16", "'from typing import List' was emitted as 'from typing import list'"),
    "fix: class members whose positions coincide": ("C12", "a class with a method standing two places before a field was emitted with members in HashMap order: 182 of 410 programs gave 2-4 different outputs over 14 seeds, on 16 threads and across processes"),
    "fix: cyclic inheritance is reported": ("C03", "'class A: A', 'class A: B / class B: A' and every other cyclic parent graph (2 947 of 3 708 graph x use inputs) aborted the process with a stack overflow"),
    "fix: defining an empty tuple of identifiers": ("C03", "'def () := 3' panicked: cannot have empty identifier"),
    "fix: a context error in a single-file run names the file": ("C19", "context errors (duplicate parent, argument without type, cyclic inheritance, alias mismatch) were rendered as '──→ <unknown>:1:16' without quoted line, also for a single input file"),
    "fix: a diagnostic without a real position names only the file": ("C19", "'class (): (K)' reported '──→ src/f.mamba:0:0'"),
    "fix: ordering class members does not print them": ("C03", "regression of the member-order repair caught by the C15-1 seed run: every interface with an abstract method panicked ('attempt to subtract with overflow', generate/ast/mod.rs:116) because the tie-break printed a decorated method at depth 0"),
    "fix: a comment is trivia for the indentation state": ("C14", "two comment lines in one gap, the first indented like the following statement and the second like the preceding one ('    r / # note /     # note / print(..)'), made a valid program unparsable (117+ placements in the thorough tier); the comment token opened/closed blocks"),
    "fix: blank and comment lines are allowed in a block of type conditions": ("C14", "a blank or comment line inside the indented condition block of 'type T: K when' made valid/class/types.mamba unparsable"),
    "fix: a line break inside a string literal or doc-string is the same": ("C14", "a string literal or doc-string spanning lines kept the CR of a CRLF file: '\"a<CRLF>b\"' emitted \"a\\r\\nb\" (LF file: \"a\\nb\"), doc-strings differed at the API (valid/class/doc_strings.mamba)"),
    "fix: blocks open at the end of the input are closed": ("C19", "an input that stops inside a block followed by blank lines ('def f() =>\\n    print(1) +\\n\\n') reported 'unexpected end' on a line after the last line of text: the Dedent tokens that close open blocks were positioned after the trailing blank lines (truncated-last-line faults of the C19 sweep)"),
    "fix: a closing brace that closes nothing": ("C02", "'\"}\"' / '\"a}b{c}\"': a '}' with no open '{' drove the lexer's brace counter negative (later '{' not seen as interpolation) and was copied singly into the f-string, which CPython refuses (\"single '}' is not allowed\")"),
    "fix: the expression guarded by a handle that is used as a value": ("C05", "'def f() -> Int => \"s\" handle ...' and 'def r: Int := if c then .. else (None handle ...)' were accepted: the handled expression of a handle in value position was not constrained at all (found by C04's edits of the A.handle base: TypeError at run time)"),
    "fix: the new value of a reassignment is checked as an expression": ("C05", "'pm := if c then <block ending in \"s\"> else 1' with pm: Int was accepted for all 40 non-conforming type pairs: if/match on the right of ':=' were generated as statements, so their branches were never tied to the variable's type (also closed C06-F3 and the if-with-None half of C06-F5)"),
    "fix: every None literal is typed on its own": ("C06", "'def n: Int? := 1 / n := None / def f() -> Str? => None' was refused ('expected a Str?, was an Int?'): all None literals of a file were one expression for the unifier, so the nullable type learnt at one use was imposed on the others (396 of 7614 cases once every C06 case was also run behind an unrelated, legal None)"),
    "fix: a function body and the new value of a reassignment are constrained before": ("C05", "'def h(b: Box) -> Int => b.f' with f: Float was accepted and '-> Float => b.f' with f: Int refused (likewise 'x := b.f'): the use constraint was queued before the access constraint, so the expression was replaced by the DECLARED type and the field's type then checked against it in the wrong direction; the same ordering let a nullable variable or field pass as last expression of a function returning T (C06-F4), a nullable field pass as new value of a T variable (C06-F5), refused 'o.f := None' for a nullable field (C06-F2) and changed the emitted shape of a one-line if under a comment (C14-F1)"),
    "fix: a function body is held to its return type under the names the body itself uses": ("C05", "'class A / def ma(self) -> Int => 1 / class R / def f: Str := \"s\" / def get(self) -> Int => self.f' was accepted (any of the 40 non-conforming type pairs, self.f and self.m() alike; former finding C05-F1): the 'fun body type' constraint was renamed with the ENCLOSING environment, whose mapping of self still pointed at the previous class, so it never met the body's own constraints"),
    "fix: every definition of a name gets a shadowing offset of its own": ("C09", "'def v: Int := 1 / if c then / def v: Str := \"s\" / def v: Int := 1' was refused ('expected an Int, was a Str'): the third definition got the offset v@1 that the definition inside the ended branch already had (924 sequences of the thorough scope machine for C09, 476 for C07; shortest 'DI[S]D')"),
    "fix: two arguments of one function may not have the same name": ("C02", "'def f(a: Int, a: Int)' (also 'self, self') was accepted and copied: SyntaxError duplicate argument in the emitted Python (110 single-token mutants of the repository samples in the thorough tier)"),
    "fix: two arguments of one class may not have the same name": ("C02", "'class MyType(def a a: Str)' (a duplicated token in a class argument list) was accepted: duplicate argument in the synthesised __init__ (10 single-token mutants of the samples, thorough tier)"),
    "fix: a class that names one of its own type parameters as parent": ("C03", "'class A[T]: T / class B: A[B]' aborted the process with a stack overflow: the parent of A[B] is B, whose parent is A[B] ... (the cycle check compares declared names only; pointed out by the round-6 sub-agent for C03 and reproduced by the generic-cycles inputs of S5)"),
    "fix: counting the reinserted constraints for the trace cannot underflow": ("C03", "'def f(t: (Int x 10)) => print(t); print(-2)' panicked with 'attempt to subtract with overflow' in reinsert (unify/link.rs): one constraint per tuple element is queued but one is counted (pointed out by the round-6 sub-agent for C03; now in S6 as a slot value)"),
    "fix: argument lists Python cannot have are refused": ("C02", "'def f(vararg a: Int := 1)', two varargs, 'def f(a: Int := 1, b: Int)' (functions, methods, lambdas, class arguments) were accepted and copied into the output, which CPython refuses (former finding C02-F1: 1 398 + 422 cases of the quick tier)"),
    "fix: a match arm that takes everything must be the last arm": ("C02", "'match m / n => .. / 1 => ..' was accepted and emitted 'case n:' before 'case 1:' (SyntaxError: makes remaining patterns unreachable; former C02-F2); '1: E3 => ..' as handle arm was emitted 'except E3 as 1:' (former C02-F4)"),
    "fix: a diagnostic whose position is on an empty line quotes that line": ("C19", "'{<LF><LF>a': the parse error at 2:1 was rendered with a caret under '<unknown>' because line 2 is empty (18 inputs of S1^4 in the thorough tier, found by the oracle kind added for seed C19-6)"),
    "fix: a Str is only added to a Str": ("C04", "'print(\"a\" + 1)' was accepted (the stub of str.__add__ took a union of all primitives) and failed with TypeError: can only concatenate str (former finding C04-F2: 36-61 edits of the quick tier)"),
    "fix: the constructor call of a raise statement is checked": ("C04", "'raise E(undefined_name)', a wrong number of arguments or a wrongly typed argument in a raise was accepted and failed at run time with NameError / TypeError (former finding C04-F1: 24 edits of the quick tier) - the raised constructor call was never visited"),
    "fix: unary minus is typed by the operand": ("C04", "'-\"s\"', '-None', '-[1]' were accepted and failed with TypeError: bad operand type for unary -, while 'print(-2)' was refused ('Cannot infer type'): a negation generated no constraint at all (the unary-minus half of finding C04-F3; the over-rejection was observation 17 of Appendix A)"),
    "fix: the default operator takes any left side": ("C06", "'nf() ? 1' and '(if c then 1 else None) ? 1' were refused ('expected a None, was an Int'; former finding C06-F1: 54 cases of the quick tier): the constraint 'left side >= None' forces the operand to be None as soon as its expression has been replaced by a type; the operand is no longer constrained (a default after a non-nullable operand is now accepted too - harmless)"),
    "fix: the type of a function without arguments is annotated": ("C02", "'def f(b: () -> Str)' was annotated 'Callable[, str]' with annotate on (valid/function/definition.mamba and its mutants: invalid Python under one setting only, seen by C11 as parsability-differs)"),
    "fix: a class argument that is also handed to a parent": ("C01", "'class Ch(def y: Int): Pa, Ot(y)' with a method reading self.y was accepted and failed with AttributeError: the synthesised constructor skipped 'self.y = y' for every class argument that also appears among a parent's arguments (found by the inheritance matrix: 3 parent kinds x child with a second parent)"),
    "fix: the output directory is created with its missing parents": ("C13", "'-o out/py' with a missing parent 'out' failed a valid project with 'No such file or directory (os error 2)' and no diagnostic (custom layout, 310 transitions of the thorough BFS)"),
}
def main():
    data = json.load(open(P)) if os.path.exists(P) else {"findings": []}
    keep = [f for f in data["findings"] if f.get("status") != "fixed"]
    log = subprocess.run(["git", "-C", "/repo", "log", "--reverse", "--format=%h\t%s"], stdout=subprocess.PIPE, text=True).stdout.splitlines()
    fixed = []
    for line in log:
        h, subj = line.split("\t", 1)
        if not subj.startswith("fix:"):
            continue
        prop, what = None, subj
        for k, (p, w) in PROP.items():
            if subj.startswith(k):
                prop, what = p, w
        n = sum(1 for f in fixed if f["property"] == prop) + 1
        fixed.append({"id": "%s-FIX%d" % (prop, n), "property": prop, "status": "fixed", "commit": h, "subject": subj, "what": what,
                      "line": "fixed: property=%s %s %s" % (prop, h, what)})
    data["findings"] = keep + fixed
    data["note"] = ("Known findings of the mamba verification (see DESIGN.md §6). `open` entries are genuine defects that are recorded, not repaired; "
                    "they explain a failing case only if property, family, kind and all predicates match. `fixed` entries document repaired defects "
                    "(fix: commits in /repo) and suppress nothing. Never written at run time.")
    json.dump(data, open(P, "w"), indent=1, ensure_ascii=False)
    print(len(keep), "open,", len(fixed), "fixed")
main()
