pub fn run(_args: &[String]) {}
