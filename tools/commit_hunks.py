#!/usr/bin/env python3
"""commit_hunks.py <regex> <message-file>: stage the hunks of /repo's working-tree diff whose text matches <regex> and commit them."""
import re, subprocess, sys
rx, msgfile = re.compile(sys.argv[1], re.S), sys.argv[2]
diff = subprocess.run(["git", "-C", "/repo", "diff", "-U0"], stdout=subprocess.PIPE, text=True).stdout
files = re.split(r"(?m)^(?=diff --git )", diff)
out = []
for f in files:
    if not f.strip():
        continue
    parts = re.split(r"(?m)^(?=@@ )", f)
    head, hunks = parts[0], parts[1:]
    sel = [h for h in hunks if rx.search(h)]
    if sel:
        out.append(head + "".join(sel))
if not out:
    print("no hunks match"); sys.exit(1)
p = subprocess.run(["git", "-C", "/repo", "apply", "--cached", "--unidiff-zero", "--recount", "-"], input="".join(out), text=True)
if p.returncode != 0:
    sys.exit(p.returncode)
subprocess.run(["git", "-C", "/repo", "commit", "-q", "-F", msgfile], check=True)
print(subprocess.run(["git", "-C", "/repo", "log", "--oneline", "-1"], stdout=subprocess.PIPE, text=True).stdout.strip())
