#!/usr/bin/env python3
"""Regenerate /verif/MANIFEST.json from the table below (kept valid at all times)."""
import json, os, subprocess

V = "/verif"
ALL = ["C%02d" % i for i in range(1, 21)]

CHECKS = {
    "C18": dict(
        category="exploration",
        text="Bounded-exhaustive exploration of the real lexer: all ordered pairs of a 113-spelling token vocabulary x 8 separators, all strings over two small alphabets (and all string bodies over a third) up to length 5-7, all layouts of <= 3-4 lines, every repository sample (LF and CRLF); on every accepted token stream the spans must tile the source exactly, carry the token's spelling, nest inside their string, balance Indent/Dedent on every prefix and end in one Eof. The indentation automaton is additionally explored to a fixpoint on the real cloned lexer State (explicit-state BFS, a few hundred abstract states) with stepping-vs-tokenize trace conformance, which settles balance for inputs of unbounded length within the indentation cap.",
        design_ref="DESIGN.md §4 C18",
        note="Trusts the additive `verif` re-export of the lexer (src/parse/verif_hooks.rs) to expose the token stream unchanged, and the oracle in driver/src/lexcheck.rs. Zero-width NL/Indent/Dedent markers are only required to lie between their real neighbours.",
        technique="exhaustive enumeration of small input spaces on the real lexer + explicit-state BFS of the indentation automaton",
    ),
}

CHECKS["C10"] = dict(
    category="exploration",
    text="Exhaustive enumeration of Core expression trees through the public API (all 37 node kinds x slots: complete at depth <= 3 for one compound child and for both operands compound, ternary with three compound slots over one representative per Python precedence class, spines to depth 4, and in the thorough tier depth-4 inner pairs and depth-5 spines over the representatives; the both-compound trees also embedded as right-hand side of VarDef/Assign/Return), printed by the real Display and re-parsed by CPython's ast: every operator must keep exactly its operands and sides. End-to-end from Mamba text: every chain of <= 3 of the 22 binary operator tokens with unary prefixes, all bracketings, and the desugarings (inclusive range / exclusive slice bound, ?, isa, E-notation, sqrt, postfix receivers, lambda) parsed by the real parser and converted by the real generator; the expectation is the tree the Mamba parser built.",
    design_ref="DESIGN.md §4 C10",
    note="The source-level family bypasses the type checker through the public ASTTy::from(&AST) so that all operator mixes reach the printer; shapes the checker can never let through (call on a compound callee) are excluded. and/or are compared flattened (associative). `1Ek` printed as `10 ** k` is accepted as the same unit.",
    technique="exhaustive small-scope enumeration of expression trees on the real printer/parser/generator, structural comparison via CPython ast",
)

CHECKS["C20"] = dict(
    category="model_checking",
    text="The real Name::is_superset_of is evaluated for ALL ordered pairs of a finite type universe built through the public API on a real Context (every non-generic class of the default context, a user hierarchy with a diamond and exceptions, all nullable variants, all two-member unions over 14 core names, unions with None, List/Set/Collection/Tuple/Dict instantiations of depth 1 (quick) / 2 (thorough), nullable generics, function types for reflexivity). On the resulting bit matrix reflexivity, transitivity (all triples), Any-top, the three nullable rules, union-accepts-members and union-iff-members (against every type) are checked exhaustively; the nominal fragment is compared with an independently computed ancestor closure; union commutativity/associativity/idempotence is checked up to mutual assignability; the whole matrix is recomputed under 6 (24) owned hash seeds and must be bit-identical. End-to-end, `def x: U := v` with `v: T` must be accepted by the full pipeline iff the matrix says T <= U.",
    design_ref="DESIGN.md §4 C20",
    note="states = types, transitions = real is_superset_of evaluations (every one is a call of the implementation, so model = code). An Err answer counts as 'not assignable'. T? -> Any is not judged end-to-end (not stated by the property). Seeds are owned via the LD_PRELOAD getrandom shim.",
    technique="exhaustive finite-universe exploration of the real relation (all pairs, all triples on the matrix) under enumerated hash seeds",
)

CHECKS["C01"] = dict(
    category="exploration",
    text="Bounded-exhaustive enumeration of the executable core language M0 (mv/gen_prog.py): every typed operator tree of depth <= 2 (depth 3 with one compound child per level in the thorough tier) over Int/Bool/Str/Float with if-expressions, in each of 13 expression contexts (initialiser, print, implicit and explicit return, argument, if/while condition, index, f-string, field initialiser, ternary branch, reassignment, list element) plus unparenthesised forms with strictly different precedence; all for-ranges over {-1,0,1,3}^2 x incl/excl x steps x {literal, variable, compound} bounds; all control-flow nestings to depth 2 (3) of if / if-else / match / while / for-range / for-list at top level, in functions and in methods; 19 function-body shapes x 6 return types (incl. nullable) as function and method; definitions/reassignments from if/match (line, block, nested, in loops); classes (class arguments with/without def, fields, methods, explicit init, parents with arguments, two parents, operators); raise/handle (5 arm lists x 4 raised classes x 4 positions, nesting, escape, methods). Each program is transpiled with annotate off and on, the emitted Python executed, and printed lines + uncaught exception class compared with the reference rendering of the same tree executed by CPython.",
    design_ref="DESIGN.md §4 C01",
    note="Reference semantics = explicit reference rendering (mv/lang.py to_ref: explicit returns, explicit constructors, fully parenthesised) executed by CPython, since Mamba's documented operators are Python's. Programs the pipeline rejects are counted, not judged. Known findings C01-F1/F2 delimit two unrepaired defects by tag predicates.",
    technique="bounded-exhaustive program enumeration (small-scope hypothesis) on the real pipeline with an executable reference model",
)

CHECKS["C02"] = dict(
    category="exploration",
    text="Exhaustive enumeration of input families whose accepted members must yield compilable Python with annotate off and on: (a) the whole M0 program pool of C01; (b) all integer lexemes over {0,1,9} up to length 3, real and E-notation shapes (leading zeros, empty exponent, trailing dot) in 8 positions, all string bodies over a 10-symbol alphabet (quotes, braces, backslash, line break, interpolation, #) up to length 3 (4), doc strings in 4 positions; (c) every block position (13) x every body that may vanish from the output (8); (d) all ordered selections of <= 3 match arms from {two literals, wildcard, capture} as statement and as expression; (e) all parameter lists of <= 3 parameters over 8 parameter kinds for functions and methods, class argument lists; (f) every single-token mutation (delete, duplicate, swap, replace-by-v, insert-v over a 24-token vocabulary) at every token of the 30 smallest (all 277) repository samples and of generated programs. Oracle: CPython compile() of every emitted file.",
    design_ref="DESIGN.md §4 C02",
    note="Judge is CPython 3.11 compile(); token boundaries come from an independent regex tokenizer. Five unrepaired defect classes (parameter-list shapes, unreachable match arms, statement-form if at expression position, literal handle binder, unbalanced f-string braces / nested quotes) are delimited by known findings C02-F1..F5 through tags on the emitted text and the CPython message.",
    technique="bounded-exhaustive input enumeration (literal shapes, structural families, all single-token mutations) on the real pipeline, CPython compile as oracle",
)

CHECKS["C11"] = dict(
    category="exploration",
    text="Metamorphic exploration over the complete pool: every M0 program (C01 families), every C02 family member (literal shapes, vanishing bodies, match orders, parameter lists), every repository sample and every single-token mutant of the mutation space is transpiled with annotate off and on; the verdicts must be equal and, on success, the two outputs must have identical Python ASTs after annotation erasure (AnnAssign -> Assign, parameter/return annotations removed, typing imports unused after erasure removed). Behavioural equality of the two outputs is additionally enforced by C01 on the executable pool.",
    design_ref="DESIGN.md §4 C11",
    note="Erasure is defined on CPython's ast; outputs neither setting can be parsed are C02's business and only counted here.",
    technique="bounded-exhaustive metamorphic comparison (both configurations of every enumerated input) with AST-level annotation erasure",
)

_CTX = "9 contexts (top level, function, method, for, while, then, else, match arm, handle arm) at nesting depth 1 in the quick tier and all 73 compositions of depth <= 2 in the thorough tier (an inner function/method context means 'in a function called from the enclosing position')"
CHECKS["C05"] = dict(
    category="exploration",
    text="Complete product of " + _CTX + " x payload kinds x all 49 type pairs over {Int, Float, Str, Bool, A, B<:A, U}: function / method / constructor call (class arguments and explicit __init__), second argument, argument that is itself a call or method call, annotated variable, reassignment, field assignment, return statement (also in a branch), implicit last expression (line and block), method return, field initialiser, value taken from a call / method call / self-method call as body, return value, initialiser; all arities 0-3 against a signature with one default for call, method and constructor; sibling branches (if/else, match arms, handle arms, handle binders) each defining a same-named local of unrelated type with a nested if/match/handle in the first. Conforming (T <= P) must be accepted, every single-point non-conforming variant rejected - both directions are violations.",
    design_ref="DESIGN.md §4 C05", note="Expectation by construction from the documented order (T == P, Int <= Float, B <= A). One unrepaired defect (self.m() body unchecked) is delimited by C05-F1.",
    technique="bounded-exhaustive contexts x payloads x types enumeration with verdicts expected by construction",
)
CHECKS["C06"] = dict(
    category="exploration",
    text="Complete product of " + _CTX + " x consuming positions (initialiser, reassignment, field assignment, argument, method argument, constructor argument, parameter with default, return, implicit last expression, operand either side, receiver) x nullable producers (None, T? variable holding None or a value, T?-returning call, if-expression with a None branch, nullable field) x T in {Int, Str, class}, plus a nullable value of a strict subtype into a non-nullable ancestor (Int? -> Float, B? -> A): all must be rejected; the accepting dual (T, None, T? into T?; `x ? d` into T; nullable return/field); and all 49 combinations of assignment paths (always, then-only, else-only, both branches, one match arm, all match arms, never) of two non-nullable fields in a constructor.",
    design_ref="DESIGN.md §4 C06", note="Five unrepaired checker defects are delimited by C06-F1..F5 (zones by payload kind and producer).",
    technique="bounded-exhaustive contexts x positions x producers enumeration with verdicts expected by construction",
)
CHECKS["C07"] = dict(
    category="exploration",
    text="Complete product of " + _CTX + " x definition forms (annotated / inferred variable, tuple destructuring, parameter, for variable, class argument, body field, fin self, fin receiver variable, property chains of length 2 with fin at each link, never defined) x 7 assignment operators (:= and every compound operator; /= on Float) x shadowing shapes (fin-then-mutable and mutable-then-fin with same and other type, inferred, inside a branch used inside / after it, parameter shadowed), plus flat and nested tuple reassignment with the fin variable or fin parameter at every position. fin targets must be rejected, mutable ones accepted.",
    design_ref="DESIGN.md §4 C07", note="Unenforced fin fields (C07-F1) are a known finding; calling a mutating method on a fin receiver is not stated by the documentation and not judged.",
    technique="bounded-exhaustive contexts x definition forms x assignment forms enumeration with verdicts expected by construction",
)
CHECKS["C08"] = dict(
    category="exploration",
    text="Hierarchy Exception > E1 > E2, Exception > E3, non-exception N. Complete product of 7 positions inside a function body (statement, initialiser, in if, in loop, in match arm, inside an arm of an outer handle, after a complete handle) x every declared set of <= 2 classes of the host x every ordered arm list of <= 2 classes x (direct raise of each class | call of a callee declaring each raise set of <= 2 classes, with each member actually raised): accepted iff every raisable class has an ancestor-or-self among arms + declared. Accepted programs are executed: the arm that runs must be the first whose class is an ancestor-or-self of the raised class, otherwise the exception must escape to the top-level handle. Declaring a non-exception class must be refused.",
    design_ref="DESIGN.md §4 C08", note="Quick tier prunes combined declared+arms size > 2 outside the statement/initialiser positions; thorough runs the full product.",
    technique="bounded-exhaustive enumeration of raise/declare/handle configurations with static expectation by construction and executed dynamic oracle",
)
CHECKS["C09"] = dict(
    category="exploration",
    text="Complete product of " + _CTX + " x 5 use forms (print, initialiser, argument, operand, right side of reassignment) x definition/use shapes: positives (earlier in the same or an enclosing block / loop / match arm, loop variable, match capture inside its arm, parameter, after reassignment, shadowing with a new type, two nesting levels) must be accepted and run without NameError / UnboundLocalError / AttributeError; negatives (never, later, then-only with and without else, else-only, one match arm, earlier arm's definition or capture read in a later arm, capture outside, loop body / loop variable after the loop, handle-arm definition and binder after and in a later arm, another function's local, nested then-only, shadowed with the wrong type, comprehension variable) must be rejected; constructor field reads before / after / on one path.",
    design_ref="DESIGN.md §4 C09", note="'Defined in both branches, used after' is unspecified and not judged; ordering of top-level definitions versus function bodies is kept out of this space.",
    technique="bounded-exhaustive contexts x definition-site x use-site enumeration with verdicts expected by construction, positives executed",
)

CHECKS["C04"] = dict(
    category="exploration",
    text="Base programs: the running programs of the M0 pool (collections/tuples, functions, assignments from control flow, classes, raise/handle, control-flow nestings, ranges, expressions; thinned in the quick tier). For every base program, EVERY single-point type-changing edit of its tree is generated: each expression position replaced by a canonical expression of every other type (Int, Float, Str, Bool, None, a user class instance, a list), one argument dropped or added at every call / method call / constructor call, every use renamed to an undefined name and to a differently typed name, every method/field name changed, every function name changed, and a same-named Str definition inserted at the head of every nested block. Whenever the pipeline accepts a mutant its output is executed by CPython; the uncaught exception must not be TypeError, AttributeError, NameError or UnboundLocalError.",
    design_ref="DESIGN.md §4 C04", note="Four unrepaired soundness holes (unchecked raise arguments, Str + anything, untyped unary/bitwise operators, unchecked parent arguments) are delimited by C04-F1..F4.",
    technique="exhaustive single-point mutation of enumerated program trees on the real pipeline, CPython execution as oracle",
)

CHECKS["C14"] = dict(
    category="exploration",
    text="Base programs: M0 pool programs of <= 14 (22) lines from every family and the 45 smallest (all <= 60-line) repository samples, valid and invalid. For each base, EVERY placement of every listed trivia item is generated: at every gap between lines (including before the first, before dedents and at end of file) a whole-line comment indented like the previous statement, one indented like the next statement, an empty line and whitespace-only lines of 2/4/8/12 spaces; after every code line a trailing comment and trailing spaces; final newline on/off; all line ends LF -> CRLF (with and without final newline); every existing comment / blank line removed; in the thorough tier every PAIR of insertions for bases of <= 6 lines. The verdict must be unchanged and the emitted Python byte-identical. Redundant parentheses are put around every sub-expression of every M0 tree: verdict unchanged and, if the text differs, identical behaviour under CPython.",
    design_ref="DESIGN.md §4 C14", note="Gaps inside multi-line string literals are not touched; parent-class arguments are not expression positions in the grammar and get no parentheses. One benign shape change (C14-F1) is a known finding.",
    technique="bounded-exhaustive metamorphic enumeration of all trivia placements on the real pipeline, byte equality of the output",
)

CHECKS["C15"] = dict(
    category="exploration",
    text="Base programs: M0 pool programs with classes, fields, methods, parents, operators, handlers, functions, tuples, plus 12 hand-written bases for name-sensitive constructs (size, defaults, sqrt, nullable default, conditional type alias, interface with a concrete parent, tuple destructuring, interpolation, field update). For every base and EVERY user-chosen identifier of it (found by an independent tokenizer; keywords, self, __init__, print, operator names and Mamba's built-in type names stay fixed), the identifier is renamed consistently - also inside string interpolations - to every unused name of a pool of 21 lower-case names (foo, bar1, q, _t and the colliding size, init, super, math, typing, abstractmethod, err, other, abc, optional, list, dict, object, ...) or, for class names, 9 capitalised names (Foo, Optional, Union, NewType, ABC, Generic, ...); the thorough tier adds every injective pair of renamings over the first five identifiers. Both annotate settings. Oracle: verdict unchanged and parse(out(rename(P))) == rename(parse(out(P))) on CPython ASTs (names, attributes, parameters, keywords, def/class names, except and match binders).",
    design_ref="DESIGN.md §4 C15", note="The hidden stub class Generic (C15-F1) is a known finding.",
    technique="bounded-exhaustive metamorphic enumeration of all single (pairwise) renamings into a collision-biased name pool, AST comparison",
)

CHECKS["C16"] = dict(
    category="exploration",
    text="Complete product of support-import constructs x positions x annotate: 11 type forms (nullable, nullable class, union, tuple, two function types, Any, nested tuple, function returning nullable, union with nullable member, plain) x 15 positions (variable at top level / in a function / in a method / in a loop, parameter, method parameter, return, method return, field, class argument, if-, match- and handle-assigned variable, inferred variable, two uses); sqrt in 15 positions (initialiser, print, function / method body, field initialiser, default argument, condition, loop, match arm, handle arm, interpolation, argument, operand, twice, unused function); plain and conditional type aliases, interfaces (with fields, nested, with nullable results, everything together); 13 interactions with user imports and user names equal to the support names (import math [as], from typing/abc import ..., variables / functions / parameters / classes named math, Optional, Union, ABC); every type form combined with sqrt and an interface; and the whole M0 pool. Oracle: symtable free-name analysis of the emitted module (unbound globals must be builtins), support imports at module top and once, user imports reproduced, executed outputs raise no NameError.",
    design_ref="DESIGN.md §4 C16", note="The generated sources have no free names of their own except their user imports, so any unbound global of the output is a missing import.",
    technique="bounded-exhaustive constructs x positions x configurations enumeration, static free-name analysis of the output (CPython symtable/ast)",
)
CHECKS["C17"] = dict(
    category="exploration",
    text="All classes with <= 3 (quick; 4 thorough) members in EVERY order over 10 member kinds (field with default, nullable field, method with a default parameter, method without arguments, variadic method, operator definitions + = <, explicit __init__ with a default, doc string) x 6 class-argument lists (none, def, plain, def + default, fin + def, def + vararg) x 7 parent lists (none, plain, with argument, two in both orders, literal argument, abstract type); all functions and methods with <= 3 parameters over {plain, default Int, default Str, vararg}; both annotate settings. From the emitted module the class, its bases in order, every method with parameter names, defaults (by value) and star marker, the constructor and the class-level fields are extracted with `ast` and compared with the list derived from the source: nothing dropped, duplicated or renamed, methods in source order, fields in source order, operators as dunder methods, __init__(self, <class arguments>).",
    design_ref="DESIGN.md §4 C17", note="Fields may be hoisted above methods; only relative order within fields and within methods is judged. Runs with the hash seed pinned (order dependence on the seed is C12's).",
    technique="bounded-exhaustive enumeration of definition shapes, signature extraction from the output with CPython ast",
)

CHECKS["C12"] = dict(
    category="model_checking",
    text="The only nondeterminism of the crate - the per-thread SipHash keys of std HashMap/HashSet - is OWNED by an LD_PRELOAD getrandom interposer, so a run is a function of (input, seed, history). Explored exhaustively within bounds: (1) ownership: every program twice under the same seed must be byte-identical (else machinery error); (2) seeds: ~410 programs biased to order-sensitive constructs (all interleavings of fields and methods of classes with <= 5 members x 3 class headers, all ordered pairs and all triples of 6 types as if/match unions and union parameters, two parents, re-declared parent field, classes named List/Set/Range, many classes, tuples, dict/set literals, every support import, handle unions) plus repository samples and pool programs, each under a seed set chosen greedily from a measured calibration so that EVERY iteration order of every 2- and 3-element probe set is induced by some seed (14 seeds quick, 64 thorough; 4-element coverage reported) x both annotate settings; (3) histories: explicit-state search over ALL ordered pairs (triples) of a 12-program alphabet - including workloads that reuse the same names with different meanings - run back to back on one thread of a fresh process, each result compared with the program alone in a fresh process; (4) the same request on 16 free-running threads at once; (5) fresh processes with really random keys. Invariant: one verdict and one byte string per (program, annotate).",
    design_ref="DESIGN.md §4 C12", note="loom/shuttle exploration would be vacuous: the crate has no shared state or synchronisation (scanned at run time and reported in the evidence). Seed calibration measures the seed set on probe sets; each internal HashSet has its own key. Diagnostic text of rejected programs may vary and is not compared. C12-F1 (two parents defining the same method) is a known finding.",
    technique="exhaustive exploration of owned nondeterminism (enumerated hash seeds with measured order coverage) and explicit-state search over same-process histories on the real pipeline",
)

CHECKS["C13"] = dict(
    category="model_checking",
    text="Explicit-state breadth-first search with a reference model. State = the output directory tree (path -> bytes); reference model = a dict; operations = run the REAL mamba binary (built from /repo's working tree) on a project into the SAME output directory. File pool: a.mamba (class + functions, in a short version and a long version that also needs support imports), sub/b.mamba (uses a's class and function), sub/deep/c.mamba (independent), d.mamba (fresh names only), each with a lexical-, syntax- and type-faulty twin. Projects = every non-empty subset of the 4 files x both versions of a, plus every choice of one faulty file and fault kind (103 quick / 155 thorough projects, x annotate). BFS over ALL operation sequences to depth 2 (quick, frontier thinned to 10 distinct trees after level 1) / 3 (thorough, default and custom -i/-o layout), states deduplicated on the canonical tree; in every state: success => previous tree overwritten with exactly one .py per .mamba at the mirrored path, nothing else created or modified, bytes equal to those the same project gives into an empty directory; failure => exit status != 0, output tree byte-identical to before, every diagnostic header names a faulty file's relative path and only those; cross-file use accepted iff the defining file is present. Through the API every permutation of every project's file list must give the same verdict and bytes, and a file's bytes must not depend on which unrelated files are present.",
    design_ref="DESIGN.md §4 C13", note="Every transition is an execution of the real binary, so model/implementation conformance is checked on every edge (traces_validated = transitions). Hash seed pinned via the shim (seed dependence is C12's).",
    technique="explicit-state BFS over operation histories of the real CLI binary against a reference model of the output tree; exhaustive permutation of file orders through the API",
)

CHECKS["C03"] = dict(
    category="exploration",
    text="Exhaustive input spaces through the whole pipeline (mamba_to_python, which also renders every diagnostic) on a fresh 8 MiB-stack thread of an isolated driver process with overflow checks on: S1 all strings over a 14-symbol alphabet up to length 4 (5); S2 all token sequences over a 48-token vocabulary up to length 2 (3; 4 over 20 tokens); S3 every single-token mutation of the 30 smallest (all) repository samples and of generated programs, and mutated/valid file pairs; S4 33 structural families indexed by n, doubling to 64 (2048): nesting of parentheses / lists / calls / blocks / else-if / match, operator, power, and, comparison, unary and not chains, long files, long strings and interpolations, many parameters / arguments / classes / fields / arms / handle arms, property chains, deep tuple and list types, inheritance chains, unions of many; S5 ALL parent graphs on <= 3 classes (every class picks any subset of {itself, the others}) x 6 uses, 50 degenerate definition forms; S6 grammar-slot enumeration: definition targets x values, reassignment targets x operators x values, handle-arm binders x annotations x bodies, match patterns x subjects, for targets x iterables, class heads, function heads (4 600 inputs) so that diagnostics land on every token kind; the whole M0 pool. Verdict must be Ok(non-empty) or Err(non-empty): no panic, no abort (stack overflow), no timeout; S4 timings must grow no worse than n^4 between doubling sizes.",
    design_ref="DESIGN.md §4 C03", note="Deadline 10 s per small input (normal: 3-10 ms), failures re-confirmed in isolation. Doubling stops after the first size needing > 12 s; the completed n per family is in the evidence.",
    technique="bounded-exhaustive input enumeration with crash / hang detection in an isolated process",
)
CHECKS["C19"] = dict(
    category="exploration",
    text="Every rejection produced by: the C03 spaces (strings up to length 3 (4), token pairs, all parent graphs, the grammar-slot product), the negative halves of C05, C06, C07, C09 (fault line known by construction) and C08, single faults injected at EVERY line of M0 pool programs of <= 14 lines (lexical: ' !' appended, TAB prepended; syntactic: ' )' appended, ' := 1 := 2' appended) and every multi-file project of C13 with one faulty file. Every rendered diagnostic is parsed: at least one per rejection; a header '──→ path[:line:col]' whose path is the relative path given for that source; 1 <= line <= #lines(+1), 1 <= column <= len(line)+2; every quoted 'N | text' line equals line N of the named file verbatim; a crash instead of a diagnostic is a violation; for single faults some header or caret line is on the fault line; in projects no healthy file is named.",
    design_ref="DESIGN.md §4 C19", note="Causes are read from the rendered text (no hook). Known findings: context errors of multi-file runs carry no file (C19-F1); type mismatches are positioned at another textually equal expression (C19-F2).",
    technique="bounded-exhaustive fault injection (every line x fault kinds; by-construction type faults) with a parser of the rendered diagnostics as oracle",
)

REASON_PENDING = "check not built yet in this session (see DESIGN.md Appendix D build order); nothing is claimed for it"


# ---- additions of the third session (appended to the level texts above)
_SCOPE = (" Plus the SCOPE MACHINE (mv/scopeseq.py): explicit enumeration of ALL statement sequences over the alphabet {def v: Int := 1, def fin v: Int := 2, "
          "def v: Str := \"s\" (shadowing), def fin v: Int / def v: Int (declared only), v := 3, a use as Int, a use as Str} and block constructors {if, if-else (then side), "
          "if-else (else side), for, while, match arm, handle arm}, up to 4 statements / nesting 1 (quick) and 5 statements / nesting 2 with all 7 block kinds (thorough), hosted at top level, "
          "in a function and in a method, against a reference model whose state is the stack of scopes (visibility, mutability, type, value of v); ")
CHECKS["C07"]["text"] += _SCOPE + "C07 judges the sequences whose first illegal statement is an assignment to a fin or undefined v (must be rejected) and the legal sequences that assign (must be accepted)."
CHECKS["C07"]["technique"] += "; plus explicit enumeration of all statement sequences within a size/nesting bound against a reference scope model"
CHECKS["C09"]["text"] += (_SCOPE + "C09 judges the sequences whose first illegal statement is a use of an invisible or wrongly-typed (shadowed) v and the legal sequences without assignment; legal ones are executed. "
                          "Plus the CONSTRUCTOR MACHINE (mv/ctorseq.py): all constructor bodies over {assign a, assign y, read a, read y, read through y, assign through y, if, if-else} up to 4 (5) statements against a reference "
                          "model whose state is the set of assigned fields (if-else: intersection): a read of an unassigned field must be rejected, legal bodies accepted and executed with both values of the condition.")
CHECKS["C09"]["technique"] += "; plus explicit enumeration of all statement sequences / constructor bodies within a bound against reference models of scopes and of assigned fields"
CHECKS["C05"]["text"] += (" Value CARRIERS: 12 compound constructs whose tail is the value (handle: guarded expression and arm, line and block; if-then / if-else blocks; match arms; handles nested in branches and arms, "
                          "also with the same binder name in sibling branches) x 4 consumers (annotated initialiser, implicit last expression, the same after a statement, reassignment) x all type pairs; "
                          "values that are field reads / method results in tail, return, initialiser, reassignment and argument position; the scope machine's sequences whose first illegal statement is an assignment of the wrong type.")
CHECKS["C05"]["note"] += " Further unrepaired defects delimited by C05-F2..F4 (arms must have exactly the expected type; arm of a handle around a definition unchecked; same binder in sibling handles)."
CHECKS["C06"]["text"] += (" Every case is ALSO run behind an independent, legal 'noise' prefix at the start of the file (a None assigned inside a branch; thorough: also same-named locals of different type in sibling branches, and a handle + match with binders) - "
                          "the verdict must not depend on it; and the constructor machine's bodies whose only fault is a non-nullable field left unassigned on some path (must be rejected).")
CHECKS["C06"]["note"] = "All six former C06 findings were closed by fix: commits (the last ones in the third session): the check has no open finding and reports 0 failures in both tiers."
CHECKS["C01"]["text"] += (" Plus every LEGAL sequence of the scope machine (mv/scopeseq.py, see C09) with the lines the reference scope model says it prints (values of v under block scoping).")
CHECKS["C01"]["note"] += " C01-F4 (block scoping emitted as function scoping) is recognised on scope-machine programs only when the output equals what a function-scoped model of the same statements prints."
CHECKS["C04"]["text"] += (" Third session: the scoping bases (family S: a definition local to every block kind - then, else, one-sided if, for, while, match arm, handle arm - followed by uses) and the edit 'rename a use to EVERY name bound anywhere in the program' "
                          "(locals of other blocks, loop variables, binders, parameters; quick tier: on the scoping bases).")
CHECKS["C16"]["text"] += (" Misplaced user imports: for each of the 9 support names, the user's own import of it in 8 places (first, after the use, in an uncalled / later-called function, in a method, in a branch not taken, in a loop run zero times, aliased) x the construct needing it at module level / inside a function.")
CHECKS["C15"]["text"] += (" Third session: names RELATED to another identifier of the same program (its proper prefixes, it with a suffix, doubled, minus its last character) for every identifier (quick: on the hand-written bases), and bases with `with` statements and redefined names.")
CHECKS["C11"]["text"] += (" The parameter-list family includes lambdas (as initialiser, as argument, inside a function).")
CHECKS["C20"]["text"] += (" Generic arguments include two inheritance chains of length 3 (Int <= Float <= Complex, D <= B <= A).")

CHECKS["C08"]["text"] += (" Plus the RAISE MACHINE (mv/raiseseq.py): explicit enumeration of ALL function bodies over {guarded raise of E1/E2/E3, call of a function declaring E1/E2/E3, handle (ordered arm list, guarded raising call, a sequence as body of the first arm), if} "
                          "up to 3 statements with nesting 1 (quick; the largest size keeps handles with a body) or nesting 2 and 8 arm lists (thorough: 245 k bodies) x 3 declared sets of the host, against a reference model whose state is the set of caught classes "
                          "(extended by the arms inside the guarded statement only, restored in the arm bodies and afterwards): accepted iff every raise site is covered; every accepted body is run once per statement index with exactly that statement raising, and the printed trace "
                          "(arm taken, arm end, done / escaped class) must equal the trace of the reference model.")
CHECKS["C08"]["technique"] += "; plus explicit enumeration of all statement sequences within a size/nesting bound against a static and dynamic reference model of the caught-class set"
CHECKS["C01"]["text"] += (" Family O has an inheritance matrix: 4 kinds of child constructor (none, class arguments, explicit __init__, second parent with arguments) x 3 kinds of work done by the construction of a parent listed WITHOUT arguments.")
CHECKS["C02"]["text"] += (" Fourth round: every operator-like token as the NAME of a definition (method with / without operand, returning Bool, top-level function), and the mutation 'every operator token of a sample replaced by every other operator token' (41 tokens; quick: 60 smallest samples).")
CHECKS["C02"]["note"] = "Judge is CPython 3.11 compile(); token boundaries come from an independent regex tokenizer. Unrepaired defect classes are delimited by the open C02 entries of known_findings.json (tags on the emitted text, the CPython message and the mutated source)."
CHECKS["C03"]["text"] += (" S7: 20 definition values (also those the checker can give no type: unary minus, lambda, _not_, None ? e, list builder ...) x all ordered pairs and triples of 16 uses of the defined name.")
CHECKS["C13"]["text"] += (" Project variants ':clash' put d.mamba's content under the name sub.mamba BESIDE the directory sub/ (orders of path strings and of path components differ exactly there).")
CHECKS["C14"]["text"] += (" Comment TEXT is varied too: 11 adversarial texts (##, ###, lone #, a quote, a brace, code, a trailing backslash, #!, a tab, non-ASCII) as whole-line and trailing comment at the first, a middle and the last code line of every base.")
CHECKS["C19"]["text"] += (" Projects of several files with a fault that surfaces while the shared context is built (argument without type, duplicate parent, import alias mismatch) in each file in turn.")

# ---- round 6
CHECKS["C03"]["text"] += " S5 also: user classes NAMED like classes of the default context below built-in parents, next to 0 / 4 / 6 other classes; generic cycles; wide tuples."
CHECKS["C03"]["note"] = (CHECKS["C03"].get("note", "") + " The stated size/nesting bound of the structural families is n <= 256: above it the recursion depth (linear in the input) overflows the 8 MiB stack - finding C03-F1; "
                         "the first aborting n per family is reported in the evidence. A wall-clock observation (growth, deadline) that is not seen again when the case runs alone is dropped as load noise and counted.").strip()
CHECKS["C04"]["text"] += " Element uses: every element of 12 heterogeneous tuple types, taken in 8 ways (index on literal / variable / parameter / field / call result, annotated, destructured, iterated), used with an operation of every element type - judged only when the checker accepts."
CHECKS["C05"]["text"] += " Round 6: uses that stand BEHIND a return or raise of the same block (4 payload kinds); a method result / field read whose receiver is itself a call result (9 payload kinds)."
CHECKS["C07"]["text"] += " Constructors whose self is fin (first assignment of a field, after a defaulted field; mutable control)."
CHECKS["C09"]["text"] += " The constructor machine also has a LOCAL (define / use); constructor payloads on a class that re-declares a parent's field."
CHECKS["C10"]["text"] += " Sources also with additive chains over {b, c, 1, 2} as bounds of ranges and slices, and signed numeric literals on either side of every binary operator."
CHECKS["C11"]["text"] += " The pool includes the legal sequences of the scope machine (definitions without value, shadowing, blocks)."
CHECKS["C14"]["text"] += " (15 comment texts, among them '##' alone.)"
CHECKS["C15"]["text"] += " Bases with user classes as arguments of Dict / List / Set / tuple; the stub placeholders T, R, A, B as class names."
CHECKS["C17"]["text"] += " Default-values family: 16 kinds of default value (numbers, strings, None, expressions, list / set / tuple / dict literals, nested lists, constructor calls) x function (line / block), method, explicit __init__."
CHECKS["C18"]["text"] += " Nested-string sweeps: all bodies over {\", a, LF, SP, +, z} (length <= 6 / 7) inside the braces of another string literal, also after a line break."
CHECKS["C19"]["text"] += " A caret under '<unknown>' instead of a quoted source line is a failure kind of its own."
CHECKS["C20"]["text"] += " The universe has a non-generic class below an instantiation of a generic class (IL: List[Int], St: IL) and the law generic-ancestor (a class is assignable to each declared ancestor: 5 expected-true, 3 expected-false pairs)."


def main():
    commits = subprocess.run(["git", "-C", "/repo", "log", "--format=%H %s"], stdout=subprocess.PIPE, text=True).stdout.splitlines()
    hooks = [c.split()[0] for c in commits if c.split(" ", 1)[1].startswith("verif:")]
    m = {
        "version": 1,
        "setup_cmd": "./setup.sh",
        "hooks": {
            "guard": "cargo feature `verif` (default off)",
            "enable": "driver/Cargo.toml depends on mamba = { path = \"/repo\", features = [\"verif\"] }; every ./check run rebuilds the driver against /repo's working tree",
            "baseline_off_cmd": "python3 /verif/tools/baseline_check.py /repo",
            "source_commits": hooks,
            "add_only": True,
        },
        "engines": [
            {"name": "mvdrv", "path": "driver/", "serves_properties": ALL,
             "kind_free_text": "Rust driver linking the real mamba crate: request loop (transpile / history / threads / project / lex), exhaustive lexer sweeps, indentation-automaton BFS, Core-tree enumerator, subtype-matrix explorer"},
            {"name": "mv", "path": "mv/", "serves_properties": ALL,
             "kind_free_text": "Python orchestrator: enumerators of bounded program spaces, worker pool, Python-side oracles (execution, ast, symtable), explicit-state BFS over project histories, findings matcher, evidence writer"},
            {"name": "hashseed shim", "path": "shim/hashseed.c", "serves_properties": ["C12", "C20"],
             "kind_free_text": "LD_PRELOAD getrandom() interposer: owns the SipHash keys of every thread's RandomState"},
        ],
        "checks": [],
        "not_applicable": [],
        "notes": "Technique family: model checking in the sense of bounded-exhaustive exploration of the real implementation (small-scope enumeration of inputs/programs/configurations, explicit-state search over histories and over the lexer's indentation automaton, owned hash-seed nondeterminism). Known genuine defects that are not repaired are listed in known_findings.json; repaired ones are `fix:` commits in /repo and `fixed` entries there.",
    }
    for pid in ALL:
        if pid in CHECKS:
            c = CHECKS[pid]
            m["checks"].append({
                "property_id": pid,
                "quick_cmd": "./check %s quick" % pid,
                "thorough_cmd": "./check %s thorough" % pid,
                "evidence_file": "evidence/%s.json" % pid,
                "replay_cmd_template": "./check %s --replay {path}" % pid,
                "engine": "mvdrv+mv",
                "level_claimed": {"category": c["category"], "text": c["text"], "design_ref": c["design_ref"]},
                "level_note": c["note"],
                "technique": c["technique"],
            })
        else:
            m["not_applicable"].append({"property_id": pid, "reason": REASON_PENDING})
    json.dump(m, open(os.path.join(V, "MANIFEST.json"), "w"), indent=1)
    print("MANIFEST.json: %d checks, %d not claimed" % (len(m["checks"]), len(m["not_applicable"])))


main()
