"""C18 - token positions are exact and indentation tokens are balanced.

Deciding method: exhaustive enumeration, on the real lexer, of
  L1 all ordered pairs of the token vocabulary x 8 separators,
  L2 all strings over two small alphabets up to a length bound,
  L3 all layouts of <= n lines (indent x content x line ending),
  L4 the token streams of every repository sample (and its CRLF form),
  L5 explicit-state search (to a fixpoint) of the indentation automaton on the
     real, cloned lexer state, plus trace conformance of stepping vs tokenize().
The oracle lives in driver/src/lexcheck.rs (tiling of the source by token spans,
span text == token spelling, nested tokens inside their string, Indent/Dedent
balance on every prefix, single trailing Eof, kinds of canonical spellings).
"""
import json

from ..pool import run_shards, Driver
from .. import corpus

ID = "C18"
LEVEL = "exploration"
RULE = ("every input of the finite spaces L1-L3 is lexed by the real lexer (feature verif re-export) and all span/"
        "balance invariants are evaluated on every accepted token stream; non-trivial = accepted by the lexer with "
        "at least one real token, distinct by input text; L5 explores the abstract indentation state space "
        "(cur_indent, line_indent, token_this_line, min(pending NL,2)) of the real lexer State to a fixpoint")
ASSUMPTIONS = [
    "NL/Indent/Dedent/Eof are zero-width markers: they must lie between the neighbouring real tokens; their mutual order is the lexer's documented batching and is not judged",
    "columns are counted in characters, lines are separated by LF (a CR belongs to the line it ends)",
    "L5: the abstraction is sound because State::token reads only cur_indent, line_indent, token_this_line and the pending newlines (pos never feeds back into indentation); bounded by line_indent <= cap",
]
SHIM = False

S1 = r"a,1,\s,\n,\r,\q,{,},(,),:,=,.,#"
S2 = r"\q,\\,{,},a,\s,\n,é,#,+"
S3 = r"\\,{,},a,\s,\n,é,+"     # string bodies, wrapped in quotes and followed by a token


def cases(tier, seed):
    # L4: corpus token streams (LF and CRLF)
    i = 0
    for path, src in corpus.files():
        for variant, text in (("lf", src), ("crlf", src.replace("\r\n", "\n").replace("\n", "\r\n"))):
            i += 1
            yield {"id": "L4-%d" % i, "family": "c18.L4.corpus", "mode": "lexcheck", "input": text,
                   "tags": ["corpus:" + path, "eol:" + variant]}


def evaluate(case, drv):
    mode = case.get("mode", "lexcheck")
    text = case["input"]
    fam = case.get("family", "c18")
    if mode == "automaton":
        return {"fail": replay_automaton(case), "nontrivial": True, "key": text}
    r = drv.lexcheck(text)
    res = {"fail": [], "nontrivial": False, "key": text, "stats": {}}
    if r["v"] == "ok":
        res["nontrivial"] = r["ntok"] > 1
        res["stats"][fam + ".accepted"] = 1
        for v in r["viol"]:
            res["fail"].append({"family": fam, "kind": v["kind"], "detail": v["detail"], "tags": case.get("tags", [])})
        if case.get("want") is not None:
            k = drv.lex(text)
            got = [t["k"] for t in k.get("toks", [])]
            if got != case["want"]:
                res["fail"].append({"family": fam, "kind": "pair-kinds", "detail": "got %s want %s" % (got, case["want"]), "tags": []})
    elif r["v"] == "err":
        res["stats"][fam + ".rejected"] = 1
        if case.get("want") is not None:
            res["fail"].append({"family": fam, "kind": "pair-rejected", "detail": r.get("msg", ""), "tags": []})
    else:
        res["fail"].append({"family": fam, "kind": "lexer-" + r["v"], "detail": json.dumps(r)[:300], "tags": case.get("tags", [])})
    return res


def replay_automaton(case):
    cap, depth = case.get("cap", 16), case.get("depth", 4)
    out = []
    for a, lines, rc, err in run_shards([["automaton", cap, depth]]):
        for l in lines:
            if l.startswith("F "):
                d = json.loads(l[2:])
                if d["input"] == case["input"]:
                    out.append({"family": "c18.L5.automaton", "kind": d["kind"], "detail": d["detail"], "tags": []})
    return out


def _sweep(name, family, argvs, agg, mode="lexcheck"):
    results = []
    tot = {"total": 0, "accepted": 0, "rejected": 0, "panics": 0, "failing": 0}
    for a, lines, rc, err in run_shards(argvs):
        if rc != 0:
            yield {"machinery": "sweep %s %s exited %s: %s" % (name, a, rc, err[-400:]), "cid": name}
            return
        got_summary = False
        for l in lines:
            if l.startswith("S "):
                got_summary = True
                s = json.loads(l[2:])
                for k in tot:
                    tot[k] += s.get(k, 0)
                for k in ("kinds_checked", "vocab", "space"):
                    if k in s:
                        agg["extra"].setdefault(name, {})[k] = agg["extra"].get(name, {}).get(k, 0) + s[k] if k == "kinds_checked" else s[k]
            elif l.startswith("F "):
                d = json.loads(l[2:])
                case = {"id": name, "family": family, "mode": mode, "input": d["input"], "tags": []}
                if "want" in d:
                    case["want"] = d["want"]
                results.append({"fail": [{"family": family, "kind": d["kind"], "detail": d["detail"], "tags": []}],
                                "case": case, "cid": name, "evals": 0})
        if not got_summary:
            yield {"machinery": "sweep %s %s printed no summary" % (name, a), "cid": name}
            return
    agg["extra"].setdefault(name, {}).update(tot)
    # the sweep's counts: evaluations = inputs lexed, nontrivial = accepted inputs (distinct by construction)
    yield {"evals": tot["total"], "stats": {family + ".accepted": tot["accepted"], family + ".rejected": tot["rejected"]}, "cid": name}
    agg["nontrivial_keys"].update((name, i) for i in range(tot["accepted"]))
    for r in results:
        yield r


def direct(tier, seed, agg):
    n = 16
    quick = tier == "quick"
    yield from _sweep("L1.pairs", "c18.L1.pairs", [["lexsweep", "pairs", i, n] for i in range(n)], agg)
    yield from _sweep("L2.strings.S1", "c18.L2.strings", [["lexsweep", "strings", S1, 6, i, n] for i in range(n)], agg)
    yield from _sweep("L2.strings.S2", "c18.L2.strings", [["lexsweep", "strings", S2, 6 if quick else 7, i, n] for i in range(n)], agg)
    yield from _sweep("L2.strbody", "c18.L2.strbody", [["lexsweep", "strings", S3, 7, i, n, r"x\s\q", r"\q\sy"] for i in range(n)], agg)
    # a string literal INSIDE the braces of another string literal (also spanning lines): every body over {", a, LF, SP, +, z}
    yield from _sweep("L2.nested", "c18.L2.nested", [["lexsweep", "strings", r"\q,a,\n,\s,+,z", 6 if quick else 7, i, n, r"x\s\qp{", r"}q\q\sy"] for i in range(n)], agg)
    yield from _sweep("L2.nested-after-break", "c18.L2.nested", [["lexsweep", "strings", r"\q,a,\n,\s,+", 5 if quick else 6, i, n, r"\qp\n{", r"}\q\sy"] for i in range(n)], agg)
    yield from _sweep("L3.layouts", "c18.L3.layouts", [["lexsweep", "layouts", 3 if quick else 4, i, n] for i in range(n)], agg)
    # L5 automaton
    cap, depth = (24, 6) if quick else (40, 6)
    for a, lines, rc, err in run_shards([["automaton", cap, depth]]):
        if rc != 0:
            yield {"machinery": "automaton exited %s: %s" % (rc, err[-400:]), "cid": "L5"}
            return
        for l in lines:
            if l.startswith("S "):
                s = json.loads(l[2:])
                agg["extra"]["L5.automaton"] = s
                agg["extra"]["states"] = s["states"]
                agg["extra"]["transitions"] = s["transitions"]
                agg["extra"]["traces_validated_against_impl"] = s["conformance_paths"]
                yield {"evals": s["transitions"] + s["conformance_paths"], "cid": "L5"}
                agg["nontrivial_keys"].update(("L5", i) for i in range(s["states"]))
            elif l.startswith("F "):
                d = json.loads(l[2:])
                case = {"id": "L5", "family": "c18.L5.automaton", "mode": "automaton", "input": d["input"], "cap": cap, "depth": depth, "tags": []}
                yield {"fail": [{"family": "c18.L5.automaton", "kind": d["kind"], "detail": d["detail"], "tags": []}], "case": case, "cid": "L5", "evals": 0}
    agg["samples"].extend([
        {"L1": "from\\n    \"a{b}c\"  (pair x separator)"},
        {"L2": "all strings over {%s} up to the length bound" % S1},
        {"L3": "'    x\\r\\n#c\\n        \"\"' (3-line layout)"},
        {"L5": "fragments ( SP LF CRLF #c\\n \"\" \"a\\nb\" \"\"\"d\"\"\" x fed to the cloned real State"},
    ])


def coverage(tier, agg):
    return {"exhaustive": True,
            "explanation": "L1-L3 and L5 are finite spaces enumerated completely; L4 is the finite corpus."}
